"""Assumed contracts for builtins / stdlib / numpy used by the verified functions (scalar layer).

Each entry is the *contract* the engine assumes for an external; they are listed in the evidence
under trusted_base as "stdlib contracts (vf/pyvc/stubs.py)". Tensor primitives live in
torchspec.py.
"""
from __future__ import annotations

import ast
import builtins
from fractions import Fraction

import z3

from .interp import (ExcValue, NativeNoop, Opaque, PyMethod, PyRaise, SObj, SymRange, Unsupported, Z3Method, _is_strlike,
                     coerce_pair, is_concrete, is_z3, simp, str_index, to_z3)

DEFAULT = {}


def stub(*names):
    def deco(fn):
        for n in names:
            DEFAULT[n] = fn
        return fn

    return deco


@stub("builtins.len")
def _len(I, x):
    if hasattr(x, "__vc_len__"):
        return x.__vc_len__(I)
    if _is_strlike(x):
        return z3.Length(to_z3(x)) if is_z3(x) else len(x)
    if isinstance(x, (list, tuple, dict, set, str, range)):
        return len(x)
    if isinstance(x, SObj):
        m = I.find_method(x.cls, "__len__") if x.cls is not None else None
        if m is not None:
            from .interp import BoundMethod

            return I.call(BoundMethod(x, *m), [], {})
        if "__len__" in x.fields:
            return x.fields["__len__"]
    raise Unsupported("len of %r" % (x,))


def _minmax(I, args, is_min):
    if len(args) == 1 and hasattr(args[0], "__vc_max__") and not is_min:
        return args[0].__vc_max__(I)
    if len(args) == 1:
        args = I.iterate(args[0])
    if all(is_concrete(a) for a in args):
        return (min if is_min else max)(args)
    r = args[0]
    for a in args[1:]:
        x, y = coerce_pair(r, a)
        r = z3.If((y < x) if is_min else (y > x), y, x)
    return r


@stub("builtins.min")
def _min(I, *args, **kw):
    return _minmax(I, args, True)


@stub("builtins.max")
def _max(I, *args, **kw):
    return _minmax(I, args, False)


@stub("builtins.divmod")
def _divmod(I, a, b):
    import ast as _ast

    return (I.binop(_ast.FloorDiv(), a, b), I.binop(_ast.Mod(), a, b))


@stub("builtins.abs")
def _abs(I, x):
    if not is_z3(x):
        return abs(x)
    return z3.If(x < 0, -x, x)


@stub("builtins.int")
def _int(I, x=0, *a):
    if hasattr(x, "__vc_int__"):
        return x.__vc_int__(I)
    if not is_z3(x):
        try:
            return int(x, *a)
        except (ValueError, TypeError) as e:
            raise PyRaise(type(e).__name__)
    if z3.is_int(x):
        return x
    if z3.is_bool(x):
        return z3.If(x, 1, 0)
    if z3.is_real(x):  # truncation toward zero
        return z3.If(x >= 0, z3.ToInt(x), -z3.ToInt(-x))
    raise Unsupported("int() of %s" % x.sort())


@stub("builtins.float")
def _float(I, x=0.0):
    if hasattr(x, "__vc_float__"):
        return x.__vc_float__(I)
    if not is_z3(x):
        try:
            return float(x)
        except (ValueError, TypeError) as e:
            raise PyRaise(type(e).__name__)
    if z3.is_int(x):
        return z3.ToReal(x)
    if z3.is_real(x):
        return x
    if z3.is_bool(x):
        return z3.If(x, z3.RealVal(1), z3.RealVal(0))
    raise Unsupported("float() of %s" % x.sort())


@stub("builtins.bool")
def _bool(I, x=False):
    return I.truth(x)


@stub("builtins.str")
def _str(I, x=""):
    if is_concrete(x):
        return str(x)
    if _is_strlike(x):
        return x
    return Opaque("str()")


@stub("builtins.repr")
def _repr(I, x):
    return repr(x) if is_concrete(x) else Opaque("repr()")


@stub("builtins.range")
def _range(I, *args):
    if all(isinstance(a, int) for a in args):
        return range(*args)
    if len(args) == 1:
        return SymRange(0, args[0], 1)
    if len(args) == 2:
        return SymRange(args[0], args[1], 1)
    return SymRange(*args)


@stub("builtins.enumerate")
def _enumerate(I, it, start=0):
    return [(start + i, x) for i, x in enumerate(I.iterate(it))]


@stub("builtins.zip")
def _zip(I, *its):
    return list(zip(*[I.iterate(x) for x in its]))


@stub("builtins.list")
def _list(I, it=()):
    return list(I.iterate(it))


@stub("builtins.tuple")
def _tuple(I, it=()):
    return tuple(I.iterate(it))


@stub("builtins.sorted")
def _sorted(I, it, key=None, reverse=False):
    items = I.iterate(it)
    if key is None and all(is_concrete(x) for x in items):
        return sorted(items, reverse=reverse)
    raise Unsupported("sorted() on symbolic items")


@stub("builtins.sum")
def _sum(I, it, start=0):
    r = start
    for x in I.iterate(it):
        r = I.binop(ast.Add(), r, x)
    return r


@stub("builtins.any")
def _any(I, it):
    for x in I.iterate(it):
        if I.branch(x):
            return True
    return False


@stub("builtins.all")
def _all(I, it):
    for x in I.iterate(it):
        if not I.branch(x):
            return False
    return True


@stub("builtins.dict")
def _dict(I, *a, **kw):
    d = {}
    if a:
        src = a[0]
        if isinstance(src, dict):
            d.update(src)
        else:
            for k, v in I.iterate(src):
                d[I.dict_key(k)] = v
    d.update(kw)
    return d


@stub("builtins.dict.fromkeys")
def _dict_fromkeys(I, it, value=None):
    return {I.dict_key(k): value for k in I.iterate(it)}


@stub("builtins.set")
def _set(I, it=()):
    items = I.iterate(it)
    if all(is_concrete(x) for x in items):
        return set(items)
    raise Unsupported("set() of symbolic items")


@stub("builtins.isinstance")
def _isinstance(I, v, t):
    ts = t if isinstance(t, tuple) else (t,)
    if hasattr(v, "__vc_isinstance__"):
        return v.__vc_isinstance__(I, ts)
    if is_z3(v):
        import numpy as np

        def one(k):
            if k is int or k is np.integer:
                return z3.is_int(v)
            if k is float or k is np.floating:
                return z3.is_real(v)
            if k is bool:
                return z3.is_bool(v)
            if k is str:
                return z3.is_string(v)
            return False

        return any(one(k) for k in ts)
    if isinstance(v, SObj):
        return v.cls is not None and issubclass(v.cls, ts)
    if isinstance(v, Opaque):
        raise Unsupported("isinstance on an opaque value")
    return isinstance(v, ts)


@stub("builtins.print")
def _print(I, *a, **k):
    return None


@stub("builtins.type")
def _type(I, v):
    if isinstance(v, SObj):
        return v.cls
    if is_z3(v):
        return int if z3.is_int(v) else float if z3.is_real(v) else bool if z3.is_bool(v) else str
    return type(v)


@stub("builtins.hasattr")
def _hasattr(I, o, n):
    if isinstance(o, SObj):
        return n in o.fields or (o.cls is not None and hasattr(o.cls, n))
    return hasattr(o, n)


@stub("builtins.getattr")
def _getattr(I, o, n, *d):
    if d and isinstance(o, SObj) and n not in o.fields and not (o.cls is not None and hasattr(o.cls, n)):
        return d[0]
    try:
        return I.getattr(o, n)
    except PyRaise as e:
        if d and e.etype == "AttributeError":
            return d[0]
        raise


@stub("math.floor")
def _floor(I, x):
    import math

    if not is_z3(x):
        return math.floor(x)
    return x if z3.is_int(x) else z3.ToInt(x)


@stub("math.ceil")
def _ceil(I, x):
    import math

    if not is_z3(x):
        return math.ceil(x)
    return x if z3.is_int(x) else -z3.ToInt(-x)


@stub("<noop>")
def _noop(I, *a, **k):
    return None


@stub("<method>.startswith")
def _m_startswith(I, *a):
    raise Unsupported("unbound")


def call_method(I, m, args, kwargs):
    """methods of SMT strings / python containers holding symbolic items"""
    obj, name = m.obj, m.name
    if isinstance(m, Z3Method) and z3.is_string(obj) or (isinstance(m, PyMethod) and isinstance(obj, str) and any(is_z3(a) for a in args)):
        s = to_z3(obj)
        if name == "startswith":
            return _str_prefix(I, s, args[0], True)
        if name == "endswith":
            return _str_prefix(I, s, args[0], False)
        if name == "format":
            return Opaque("format")
        raise Unsupported("string method %s on an SMT string" % name)
    if isinstance(m, PyMethod):
        if isinstance(obj, str) and name == "format":
            if all(is_concrete(a) for a in args) and all(is_concrete(v) for v in kwargs.values()):
                return obj.format(*args, **kwargs)
            return Opaque("format")
        if isinstance(obj, list):
            if name == "append":
                obj.append(args[0])
                return None
            if name == "extend":
                obj.extend(I.iterate(args[0]))
                return None
            if name == "pop":
                try:
                    return obj.pop(*args)
                except IndexError:
                    raise PyRaise("IndexError")
            if name == "clear":
                obj.clear()
                return None
            if name == "insert":
                obj.insert(*args)
                return None
            if name == "copy":
                return list(obj)
            if getattr(obj, "set_abstraction", False):  # a sidecar's list standing for a set of symbolic items (no duplicates by construction)
                if name == "add":
                    obj.append(args[0])
                    return None
                if name == "update":
                    obj.extend(I.iterate(args[0]))
                    return None
        if isinstance(obj, dict):
            if name == "get":
                k = I.dict_key(args[0])
                try:
                    return I.getitem(obj, args[0])
                except PyRaise as e:
                    if e.etype == "KeyError":
                        return args[1] if len(args) > 1 else None
                    raise
            if name == "items":
                return list(obj.items())
            if name == "keys":
                return list(obj.keys())
            if name == "values":
                return list(obj.values())
            if name == "setdefault":
                k = I.dict_key(args[0])
                if k not in obj:
                    obj[k] = args[1] if len(args) > 1 else None
                return obj[k]
            if name == "update":
                obj.update(args[0] if args else {}, **kwargs)
                return None
            if name == "pop":
                k = I.dict_key(args[0])
                if k in obj:
                    return obj.pop(k)
                if len(args) > 1:
                    return args[1]
                raise PyRaise("KeyError")
            if name == "copy":
                return dict(obj)
        if isinstance(obj, set):
            if name == "add":
                obj.add(args[0])
                return None
        if is_concrete(obj) and all(is_concrete(a) for a in args) and all(is_concrete(v) for v in kwargs.values()):
            try:
                return getattr(obj, name)(*args, **kwargs)
            except Exception as e:
                raise PyRaise(type(e).__name__, str(e))
    raise Unsupported("method %s on %r" % (name, obj))


def _str_prefix(I, s, p, prefix):
    if isinstance(p, tuple):
        r = False
        for q in p:
            c = _str_prefix(I, s, q, prefix)
            r = c if r is False else z3.Or(r, c)
        return r
    p = to_z3(p)
    return z3.PrefixOf(p, s) if prefix else z3.SuffixOf(p, s)


@stub("typing.get_args")
def _get_args(I, t):
    import typing

    return typing.get_args(t)
