"""Discharging obligations: z3 first, cvc5 on whatever z3 leaves unknown (and as an independent
second opinion in the thorough tier)."""
from __future__ import annotations

import os
import subprocess
import tempfile
import time
from fractions import Fraction

import z3

CVC5 = "/usr/bin/cvc5"


class Result:
    def __init__(self, status, backend, ms, model=None, note=""):
        self.status, self.backend, self.ms, self.model, self.note = status, backend, ms, model, note


def model_value(m, t):
    v = m.eval(t, model_completion=True)
    if z3.is_int_value(v):
        return v.as_long()
    if z3.is_rational_value(v):
        return Fraction(v.numerator_as_long(), v.denominator_as_long())
    if z3.is_true(v):
        return True
    if z3.is_false(v):
        return False
    if z3.is_string_value(v):
        import re
        # z3 prints non-ASCII / control characters as \u{hex}: decode them, the replay needs the string itself
        return re.sub(r"\\u\{([0-9a-fA-F]+)\}", lambda mo: chr(int(mo.group(1), 16)), v.as_string())
    if z3.is_algebraic_value(v):
        return float(v.approx(10).as_fraction())
    return str(v)


def run_cvc5(smt2: str, timeout_ms: int, strings=False):
    with tempfile.NamedTemporaryFile("w", suffix=".smt2", delete=False) as f:
        f.write(smt2)
        path = f.name
    cmd = [CVC5, "--lang=smt2", "--tlimit=%d" % timeout_ms]
    if strings:
        cmd.append("--strings-exp")
    t = time.time()
    try:
        out = subprocess.run(cmd + [path], capture_output=True, text=True, timeout=timeout_ms / 1000 + 10)
        txt = (out.stdout or "").strip().splitlines()
        res = txt[0].strip() if txt else "unknown"
    except subprocess.TimeoutExpired:
        res = "unknown"
    finally:
        os.unlink(path)
    if res not in ("sat", "unsat"):
        res = "unknown"
    return res, (time.time() - t) * 1000


def _has_strings(fmls):
    s = " ".join(str(f.sort()) for f in fmls[:1])
    txt = z3.And(fmls).sexpr() if fmls else ""
    return "String" in txt or "str." in txt


def _is_num(t):
    return z3.is_rational_value(t) or z3.is_int_value(t) or z3.is_algebraic_value(t)


def product_facts(a, b, v):
    """facts about v = a * b used by abstract_products; each is a theorem of real / integer arithmetic (proved on every run of C08
    as the raw lemma `product_facts_are_valid`, without the abstraction)"""
    out = []
    for x, y in ((a, b), (b, a)):
        out.extend([z3.Implies(z3.And(x >= 0, y >= 0), v >= 0), z3.Implies(z3.And(x <= 0, y <= 0), v >= 0), z3.Implies(z3.And(x >= 0, y <= 0), v <= 0),
                    z3.Implies(x == 1, v == y), z3.Implies(z3.And(x >= 0, x <= 1, y >= 0), v <= y), z3.Implies(z3.And(x >= 0, x < 1, y > 0), v < y),
                    z3.Implies(z3.And(x >= 1, y >= 0), v >= y), z3.Implies(z3.And(x > 0, y > 0), v > 0),
                    z3.Implies(z3.And(x >= 0, y <= -1), v <= -x), z3.Implies(z3.And(x <= 0, y <= -1), v >= -x)])
    out.append((v == 0) == z3.Or(a == 0, b == 0))
    return out


def ratio_facts(x, d, q):
    """facts about q = x / d over the reals (besides q * d = x for d != 0); proved on every run of C08 as a raw lemma"""
    return [z3.Implies(z3.And(d > 0, x >= 0), q >= 0), z3.Implies(z3.And(d > 0, x > 0), q > 0), z3.Implies(z3.And(d > 0, x <= 0), q <= 0),
            z3.Implies(z3.And(d > 0, x <= d), q <= 1), z3.Implies(z3.And(d > 0, x < d), q < 1), z3.Implies(z3.And(d > 0, x >= d), q >= 1),
            z3.Implies(z3.And(d > 0, x == d), q == 1), z3.Implies(z3.And(d != 0, x == 0), q == 0)]


def shared_factor_facts(x, y, y2, v, w):
    """facts relating v = x * y and w = x * y2"""
    return [z3.Implies(z3.And(x >= 0, y <= y2), v <= w), z3.Implies(z3.And(x >= 0, y >= y2), v >= w),
            z3.Implies(z3.And(x <= 0, y <= y2), v >= w), z3.Implies(z3.And(x <= 0, y >= y2), v <= w), z3.Implies(y == y2, v == w),
            z3.Implies(z3.And(x > 0, y < y2), v < w)]


def abstract_products(fmls):
    """Sound weakening for nonlinear arithmetic: every product x * y of two non-constant factors (outside quantifiers) is replaced
    by a fresh variable v, and every integer x div d / x mod d with a non-constant divisor by fresh q / r, constrained only by VALID
    facts about products / quotients (signs, zero, unit factors, 0 <= x <= 1 scaling,
    monotonicity in a shared factor). If the result - linear arithmetic - is unsatisfiable, so is the original: the original's
    products satisfy every added fact. Returns (new formulas, number of products) - sat / unknown answers on it mean nothing."""
    memo, prods, facts = {}, {}, []
    ctr = [0]

    def prod(a, b):
        if a.get_id() > b.get_id():
            a, b = b, a
        key = (a.get_id(), b.get_id())
        if key in prods:
            return prods[key][2]
        ctr[0] += 1
        v = z3.Const("prod!%d" % ctr[0], a.sort())
        prods[key] = (a, b, v)
        facts.extend(product_facts(a, b, v))
        return v

    divmods = {}

    def divmod_(x, d):
        """(q, r) for integer x div d / x mod d with a non-constant divisor: fresh integers with the valid facts (for d > 0)
        x = d * q + r and 0 <= r < d - the product d * q itself abstracted"""
        key = (x.get_id(), d.get_id())
        if key not in divmods:
            ctr[0] += 1
            q, r = z3.Int("quot!%d" % ctr[0]), z3.Int("rem!%d" % ctr[0])
            facts.append(z3.Implies(d > 0, z3.And(x == prod(d, q) + r, r >= 0, r < d)))
            divmods[key] = (x, d, q, r)
        return divmods[key][2], divmods[key][3]

    rdivs = {}

    def rdiv(x, d):
        """x / d over the reals with a non-constant divisor: a fresh q with the valid facts d != 0 -> q * d = x (the product
        abstracted) and the sign / unit-interval consequences for d > 0"""
        key = (x.get_id(), d.get_id())
        if key not in rdivs:
            ctr[0] += 1
            q = z3.Real("ratio!%d" % ctr[0])
            facts.append(z3.Implies(d != 0, prod(q, d) == x))
            facts.extend(ratio_facts(x, d, q))
            rdivs[key] = (x, d, q)
        return rdivs[key][2]

    def walk(t):
        k = t.get_id()
        if k in memo:
            return memo[k][1]
        if z3.is_quantifier(t) or not z3.is_app(t) or t.num_args() == 0:
            r = t
        else:
            kids = [walk(c) for c in t.children()]
            if z3.is_mul(t):
                nums = [c for c in kids if _is_num(c)]
                rest = [c for c in kids if not _is_num(c)]
                if len(rest) >= 2:
                    v = rest[0]
                    for f in rest[1:]:
                        if v.sort() != f.sort():
                            v, f = (z3.ToReal(v) if z3.is_int(v) else v), (z3.ToReal(f) if z3.is_int(f) else f)
                        v = prod(v, f)
                    r = v
                    for c in nums:
                        r = c * r
                else:
                    r = t.decl()(*kids)
            elif t.decl().kind() == z3.Z3_OP_DIV and len(kids) == 2 and not _is_num(kids[1]) and z3.is_real(kids[0]):
                r = rdiv(kids[0], kids[1])
            elif t.decl().kind() in (z3.Z3_OP_IDIV, z3.Z3_OP_MOD) and len(kids) == 2 and not _is_num(kids[1]) and z3.is_int(kids[0]):
                q, rm = divmod_(kids[0], kids[1])
                r = q if t.decl().kind() == z3.Z3_OP_IDIV else rm
            else:
                r = t.decl()(*kids)
        memo[k] = (t, r)
        return r

    out = [walk(f) for f in fmls]
    # monotonicity / congruence between products that share a factor
    items = list(prods.values())
    for i in range(len(items)):
        for j in range(i + 1, len(items)):
            (a, b, v), (c, d, w) = items[i], items[j]
            for (x, y), (x2, y2) in (((a, b), (c, d)), ((a, b), (d, c)), ((b, a), (c, d)), ((b, a), (d, c))):
                if x.get_id() == x2.get_id() and y.sort() == y2.sort():
                    facts.extend(shared_factor_facts(x, y, y2, v, w))
    return out + facts, len(prods) + len(divmods) + len(rdivs)


def check_unsat(fmls, timeout_ms=30000, cvc5_fallback=True, crosscheck=False, want_model=True, tactic=None):
    """Is the conjunction of fmls unsatisfiable?  -> Result(status in unsat|sat|unknown).
    Formulas with products of non-constant factors are first tried with the products abstracted (sound weakening, linear,
    reproducible); in the thorough tier the plain query and the cvc5 cross-check still run, and the abstraction's verdict stands
    when they run out of time."""
    fmls = list(fmls)
    res0 = None
    if tactic is None and not _has_strings(fmls):
        try:
            lin, nprod = abstract_products(fmls)
        except z3.Z3Exception:
            lin, nprod = None, 0
        if nprod:
            s0 = z3.Solver()
            s0.set("timeout", min(timeout_ms, 2500))
            s0.add(lin)
            t0 = time.time()
            if s0.check() == z3.unsat:
                res0 = Result("unsat", "z3[products abstracted]", (time.time() - t0) * 1000)
                if not crosscheck:
                    return res0
    r = _check_unsat(fmls, timeout_ms, cvc5_fallback, crosscheck, want_model, tactic)
    if res0 is not None and r.status == "unknown":
        res0.ms += r.ms
        res0.note = "plain query: " + (r.note or "unknown")
        return res0
    return r


def _check_unsat(fmls, timeout_ms=30000, cvc5_fallback=True, crosscheck=False, want_model=True, tactic=None):
    s = z3.Solver() if tactic is None else z3.Tactic(tactic).solver()
    fmls = list(fmls)
    strings = _has_strings(fmls)
    # z3's sequence solver is erratic; give it a short first try on string VCs and let cvc5 take over
    first = min(timeout_ms, 4000) if strings else min(timeout_ms, 3000)
    s.set("timeout", first if cvc5_fallback else timeout_ms)
    s.add(fmls)
    t = time.time()
    r = s.check()
    ms = (time.time() - t) * 1000
    if r == z3.unsat:
        res = Result("unsat", "z3", ms)
        if crosscheck:
            cr, cms = run_cvc5(s.to_smt2(), timeout_ms, _has_strings(list(fmls)))
            res.ms += cms
            if cr == "unsat":
                res.backend = "z3+cvc5"
            elif cr == "sat":
                return Result("unknown", "z3/cvc5 disagree", res.ms, note="z3 says unsat, cvc5 says sat")
            else:
                res.note = "cvc5 cross-check: unknown"
        return res
    if r == z3.sat:
        return Result("sat", "z3", ms, s.model() if want_model else None)
    if tactic is None and not strings:
        # z3's arithmetic / quantifier engines are sensitive to the random seed: an obligation that one seed decides in milliseconds
        # another seed does not decide at all. Two cheap retries with other seeds before anything expensive.
        for seed in (1, 2):
            s2 = z3.Solver()
            s2.set("timeout", min(timeout_ms, 3000))
            s2.set("random_seed", seed)
            s2.add(fmls)
            t2 = time.time()
            r2 = s2.check()
            ms += (time.time() - t2) * 1000
            if r2 == z3.unsat:
                res = Result("unsat", "z3", ms)
                if crosscheck:
                    cr, cms = run_cvc5(s2.to_smt2(), timeout_ms, False)
                    res.ms += cms
                    if cr == "unsat":
                        res.backend = "z3+cvc5"
                    elif cr == "sat":
                        return Result("unknown", "z3/cvc5 disagree", res.ms, note="z3 says unsat, cvc5 says sat")
                    else:
                        res.note = "cvc5 cross-check: unknown"
                return res
            if r2 == z3.sat:
                return Result("sat", "z3", ms, s2.model() if want_model else None)
    if cvc5_fallback:
        cr, cms = run_cvc5(s.to_smt2(), timeout_ms, _has_strings(list(fmls)))
        if cr == "unsat":
            return Result("unsat", "cvc5", ms + cms)
        if cr == "sat":
            # let z3 produce the model if it can within the full budget
            s.set("timeout", timeout_ms)
            if s.check() == z3.sat:
                return Result("sat", "cvc5+z3", ms + cms, s.model() if want_model else None)
            return Result("sat", "cvc5", ms + cms, None, note="cvc5 found a model (not extracted)")
        if first < timeout_ms:
            # both gave up: z3 again, the remaining budget split over fresh solvers with different random seeds (its nonlinear
            # and quantifier engines are sensitive to the seed: an obligation that usually takes milliseconds occasionally
            # diverges; a different seed brings it back)
            ms2 = 0.0
            for seed in (1, 2, 3):
                s2 = z3.Solver()
                s2.set("timeout", max(1000, timeout_ms // 3))
                s2.set("random_seed", seed)
                s2.add(fmls)
                t2 = time.time()
                r2 = s2.check()
                ms2 += (time.time() - t2) * 1000
                if r2 == z3.unsat:
                    return Result("unsat", "z3", ms + cms + ms2)
                if r2 == z3.sat:
                    return Result("sat", "z3", ms + cms + ms2, s2.model() if want_model else None)
            return Result("unknown", "z3+cvc5", ms + cms + ms2, note=str(s.reason_unknown()))
        return Result("unknown", "z3+cvc5", ms + cms, note=str(s.reason_unknown()))
    return Result("unknown", "z3", ms, note=str(s.reason_unknown()))
