"""Discharging obligations: z3 first, cvc5 on whatever z3 leaves unknown (and as an independent
second opinion in the thorough tier)."""
from __future__ import annotations

import os
import subprocess
import tempfile
import time
from fractions import Fraction

import z3

CVC5 = "/usr/bin/cvc5"


class Result:
    def __init__(self, status, backend, ms, model=None, note=""):
        self.status, self.backend, self.ms, self.model, self.note = status, backend, ms, model, note


def model_value(m, t):
    v = m.eval(t, model_completion=True)
    if z3.is_int_value(v):
        return v.as_long()
    if z3.is_rational_value(v):
        return Fraction(v.numerator_as_long(), v.denominator_as_long())
    if z3.is_true(v):
        return True
    if z3.is_false(v):
        return False
    if z3.is_string_value(v):
        import re
        # z3 prints non-ASCII / control characters as \u{hex}: decode them, the replay needs the string itself
        return re.sub(r"\\u\{([0-9a-fA-F]+)\}", lambda mo: chr(int(mo.group(1), 16)), v.as_string())
    if z3.is_algebraic_value(v):
        return float(v.approx(10).as_fraction())
    return str(v)


def run_cvc5(smt2: str, timeout_ms: int, strings=False):
    with tempfile.NamedTemporaryFile("w", suffix=".smt2", delete=False) as f:
        f.write(smt2)
        path = f.name
    cmd = [CVC5, "--lang=smt2", "--tlimit=%d" % timeout_ms]
    if strings:
        cmd.append("--strings-exp")
    t = time.time()
    try:
        out = subprocess.run(cmd + [path], capture_output=True, text=True, timeout=timeout_ms / 1000 + 10)
        txt = (out.stdout or "").strip().splitlines()
        res = txt[0].strip() if txt else "unknown"
    except subprocess.TimeoutExpired:
        res = "unknown"
    finally:
        os.unlink(path)
    if res not in ("sat", "unsat"):
        res = "unknown"
    return res, (time.time() - t) * 1000


def _has_strings(fmls):
    s = " ".join(str(f.sort()) for f in fmls[:1])
    txt = z3.And(fmls).sexpr() if fmls else ""
    return "String" in txt or "str." in txt


def check_unsat(fmls, timeout_ms=30000, cvc5_fallback=True, crosscheck=False, want_model=True, tactic=None):
    """Is the conjunction of fmls unsatisfiable?  -> Result(status in unsat|sat|unknown)"""
    s = z3.Solver() if tactic is None else z3.Tactic(tactic).solver()
    fmls = list(fmls)
    strings = _has_strings(fmls)
    # z3's sequence solver is erratic; give it a short first try on string VCs and let cvc5 take over
    first = min(timeout_ms, 4000) if strings else min(timeout_ms, 8000)
    s.set("timeout", first if cvc5_fallback else timeout_ms)
    s.add(fmls)
    t = time.time()
    r = s.check()
    ms = (time.time() - t) * 1000
    if r == z3.unsat:
        res = Result("unsat", "z3", ms)
        if crosscheck:
            cr, cms = run_cvc5(s.to_smt2(), timeout_ms, _has_strings(list(fmls)))
            res.ms += cms
            if cr == "unsat":
                res.backend = "z3+cvc5"
            elif cr == "sat":
                return Result("unknown", "z3/cvc5 disagree", res.ms, note="z3 says unsat, cvc5 says sat")
            else:
                res.note = "cvc5 cross-check: unknown"
        return res
    if r == z3.sat:
        return Result("sat", "z3", ms, s.model() if want_model else None)
    if cvc5_fallback:
        cr, cms = run_cvc5(s.to_smt2(), timeout_ms, _has_strings(list(fmls)))
        if cr == "unsat":
            return Result("unsat", "cvc5", ms + cms)
        if cr == "sat":
            # let z3 produce the model if it can within the full budget
            s.set("timeout", timeout_ms)
            if s.check() == z3.sat:
                return Result("sat", "cvc5+z3", ms + cms, s.model() if want_model else None)
            return Result("sat", "cvc5", ms + cms, None, note="cvc5 found a model (not extracted)")
        if first < timeout_ms:  # both gave up quickly: z3 once more with the full budget
            s.set("timeout", timeout_ms)
            t2 = time.time()
            r2 = s.check()
            ms2 = (time.time() - t2) * 1000
            if r2 == z3.unsat:
                return Result("unsat", "z3", ms + cms + ms2)
            if r2 == z3.sat:
                return Result("sat", "z3", ms + cms + ms2, s.model() if want_model else None)
        return Result("unknown", "z3+cvc5", ms + cms, note=str(s.reason_unknown()))
    return Result("unknown", "z3", ms, note=str(s.reason_unknown()))
