"""pyvc: symbolic execution of the real Python source into verification conditions.

Exploration is by deterministic re-execution: the function under contract is interpreted from its
first statement once per path; every data-dependent decision goes through `Explorer.branch`, which
follows a recorded decision prefix and schedules the untaken alternative. Exceptions raised by the
interpreted code are ordinary Python exceptions (`PyRaise`) inside the interpreter, so try/except,
early returns and raises inside helper calls need no special plumbing.

What is interpreted, what is dropped, what is assumed: see DESIGN.md section 2.1. Anything outside
the supported subset raises `Unsupported` - it is never skipped silently.
"""
from __future__ import annotations

import ast
import builtins
import importlib
import math
import types
from fractions import Fraction
from typing import Any, Callable, Dict, List, Optional

import z3

from . import source


class Unsupported(Exception):
    pass


class PathAbort(Exception):
    """current path ends without an outcome (infeasible, or an inductive-step path finished)"""


class PyRaise(Exception):
    def __init__(self, etype: str, msg=None):
        super().__init__(etype)
        self.etype, self.msg = etype, msg


class _Break(Exception):
    pass


class _Continue(Exception):
    pass


class _Return(Exception):
    def __init__(self, v):
        self.v = v


# exception hierarchy (names) used by `except` matching
_EXC_PARENTS = {
    "ValueError": "Exception", "RuntimeError": "Exception", "KeyError": "LookupError", "IndexError": "LookupError",
    "LookupError": "Exception", "TypeError": "Exception", "AssertionError": "Exception", "ZeroDivisionError": "ArithmeticError",
    "ArithmeticError": "Exception", "StopIteration": "Exception", "NotImplementedError": "RuntimeError", "IOError": "OSError",
    "FileNotFoundError": "OSError", "OSError": "Exception", "AttributeError": "Exception", "Exception": "BaseException",
}


def exc_isa(name, parent):
    while name is not None:
        if name == parent:
            return True
        name = _EXC_PARENTS.get(name)
    return False


# ---------------------------------------------------------------------------------------------
# values


class SObj:
    """A symbolic record: instance of a (real) class with symbolic fields."""

    def __init__(self, cls=None, fields=None, name="obj"):
        self.cls, self.fields, self.name = cls, dict(fields or {}), name
        self.handmade = True  # built by a sidecar with the fields it expects (Interp.instantiate clears this: __init__ really ran)

    def __repr__(self):
        return "<SObj %s %s>" % (getattr(self.cls, "__name__", self.cls), list(self.fields))


class BoundMethod:
    def __init__(self, obj, fdef, module, cls):
        self.obj, self.fdef, self.module, self.cls = obj, fdef, module, cls


class Closure:
    def __init__(self, fdef, module, frame, cls=None):
        self.fdef, self.module, self.frame, self.cls = fdef, module, frame, cls


class SuperProxy:
    def __init__(self, obj, cls):
        self.obj, self.cls = obj, cls


class Opaque:
    """A value the engine carries but cannot look into (messages, handles)."""

    def __init__(self, tag):
        self.tag = tag

    def __repr__(self):
        return "<Opaque %s>" % self.tag


def is_z3(v):
    return isinstance(v, z3.ExprRef)


def is_num(v):
    return isinstance(v, (int, float, Fraction)) and not isinstance(v, bool)


def to_z3(v, like=None):
    if is_z3(v):
        return v
    if isinstance(v, bool):
        return z3.BoolVal(v)
    if isinstance(v, int):
        if like is not None and z3.is_real(like):
            return z3.RealVal(v)
        return z3.IntVal(v)
    if isinstance(v, float):
        if v != v or v in (float("inf"), float("-inf")):
            raise Unsupported("non-finite float constant in a symbolic expression")
        return z3.RealVal(Fraction(v).limit_denominator(10 ** 12) if abs(v) < 1e12 else Fraction(v))
    if isinstance(v, Fraction):
        return z3.RealVal(v)
    if isinstance(v, str):
        return z3.StringVal(v)
    raise Unsupported("cannot lift %r to an SMT term" % (v,))


def coerce_pair(a, b):
    a, b = to_z3(a, b if is_z3(b) else None), to_z3(b, a if is_z3(a) else None)
    if z3.is_bool(a) and not z3.is_bool(b):
        a = z3.If(a, 1, 0)
    if z3.is_bool(b) and not z3.is_bool(a):
        b = z3.If(b, 1, 0)
    if z3.is_int(a) and z3.is_real(b):
        a = z3.ToReal(a)
    if z3.is_real(a) and z3.is_int(b):
        b = z3.ToReal(b)
    return a, b


def simp(t):
    return z3.simplify(t) if is_z3(t) else t


POW10 = z3.Function("pow10", z3.RealSort(), z3.RealSort())


def pydiv(a, d):
    return z3.If(d > 0, a / d, (-a) / (-d))  # z3 Int '/' is floor for a positive divisor


def pymod(a, d):
    return a - d * pydiv(a, d)


# ---------------------------------------------------------------------------------------------
# path exploration


def local(frame, name):
    """a sidecar's read of a local variable of the function under contract: if the code no longer has it, the contract does not
    apply to this source (outside the verified subset, exit 2) - not a crash and not a violation"""
    if name not in frame.locals:
        raise Unsupported("the function under contract has no local variable %r at this point (sidecar invariants are stated over it)" % name)
    return frame.locals[name]


class Obligation:
    def __init__(self, name, hyps, goal, note="", insts=None):
        self.name, self.hyps, self.goal, self.note = name, list(hyps), goal, note
        # explicit instances of the quantified hypotheses (FORALL-elimination done by the sidecar): when present the obligation is
        # first tried quantifier-free (quantified hypotheses dropped - weakening is sound - and these instances added)
        self.insts = list(insts) if insts is not None else None


class Path:
    def __init__(self, pc, outcome, value, obls, decisions, yields=None, ghost=None, insts=None):
        self.pc, self.outcome, self.value, self.obls, self.decisions = pc, outcome, value, obls, decisions
        self.yields = yields
        self.ghost = ghost or {}
        self.insts = list(insts or [])


_QCACHE = {}


def has_quantifier(f):
    if not is_z3(f):
        return False
    key = f.get_id()
    if key in _QCACHE:
        return _QCACHE[key][1]
    seen, stack, found = set(), [f], False
    while stack:
        t = stack.pop()
        if t.get_id() in seen:
            continue
        seen.add(t.get_id())
        if z3.is_quantifier(t):
            found = True
            break
        stack.extend(t.children())
    _QCACHE[key] = (f, found)  # the term is kept alive with its entry: z3 reuses the ids of freed terms
    return found


class Explorer:
    def __init__(self, axioms=(), feas_timeout_ms=3000, max_paths=4000):
        self.axioms = list(axioms)
        self.feas_timeout_ms, self.max_paths = feas_timeout_ms, max_paths
        self.n_feas = 0

    # per-path state
    def _begin(self, prefix):
        self.prefix, self.decisions, self.pc, self.obls = list(prefix), [], [], []
        self.counter = 0
        self.ghost = {}
        self.insts = []

    def fresh(self, sort, hint="v"):
        self.counter += 1
        name = "%s!%d" % (hint, self.counter)
        if isinstance(sort, z3.SortRef):
            return z3.Const(name, sort)
        if sort == "int":
            return z3.Int(name)
        if sort == "real":
            return z3.Real(name)
        if sort == "bool":
            return z3.Bool(name)
        if sort == "str":
            return z3.String(name)
        if isinstance(sort, z3.SortRef):
            return z3.Const(name, sort)
        raise Unsupported("fresh of sort %r" % (sort,))

    def feasible(self, extra) -> bool:
        # path pruning only: quantified hypotheses are left out (over-approximating feasibility is sound - an
        # infeasible path explored anyway only yields obligations with contradictory hypotheses)
        s = z3.Solver()
        s.set("timeout", self.feas_timeout_ms)
        s.add([a for a in self.axioms if not has_quantifier(a)])
        s.add([c for c in self.pc if not has_quantifier(c)])
        s.add(extra)
        self.n_feas += 1
        return s.check() != z3.unsat  # unknown counts as feasible

    def branch(self, cond) -> bool:
        if isinstance(cond, bool):
            return cond
        cond = z3.simplify(cond)
        if z3.is_true(cond):
            return True
        if z3.is_false(cond):
            return False
        i = len(self.decisions)
        if i < len(self.prefix):
            d = self.prefix[i]
        else:
            ft = self.feasible(cond)
            ff = self.feasible(z3.Not(cond))
            if ft and ff:
                self.worklist.append(self.decisions + [False])
                d = True
            elif ft:
                d = True
            elif ff:
                d = False
            else:
                raise PathAbort()
        self.decisions.append(d)
        self.pc.append(cond if d else z3.Not(cond))
        return d

    def choose(self, n: int) -> int:
        """nondeterministic n-way choice (not tied to a condition)"""
        i = len(self.decisions)
        if i < len(self.prefix):
            d = self.prefix[i]
        else:
            for k in range(1, n):
                self.worklist.append(self.decisions + [k])
            d = 0
        self.decisions.append(d)
        return d

    def assume(self, cond):
        if isinstance(cond, bool):
            if not cond:
                raise PathAbort()
            return
        self.pc.append(cond)

    def instance(self, fml, quantified_atoms=False):
        """register an INSTANCE of a quantified hypothesis already assumed on this path (the caller builds it with the same formula
        builder as the quantified hypothesis, so it is an instance by construction). Instances are quantifier-free, unless the caller
        states that remaining quantified sub-formulas are meant as opaque atoms (they recur verbatim in the goal)."""
        if has_quantifier(fml) and not quantified_atoms:
            raise Unsupported("instance() of a quantified formula")
        if not any(fml.eq(x) for x in self.insts[-400:]):
            self.insts.append(fml)

    def oblige(self, name, goal, note=""):
        # a conjunction is proved conjunct by conjunct: small queries are decided fast and reproducibly, large ones are not
        if is_z3(goal) and z3.is_and(goal) and goal.num_args() > 1:
            for i, c in enumerate(goal.children()):
                self.obls.append(Obligation("%s.%d" % (name, i), self.axioms + self.pc, c, note, insts=self.insts if self.insts else None))
            return
        self.obls.append(Obligation(name, self.axioms + self.pc, goal, note, insts=self.insts if self.insts else None))

    def explore(self, thunk: Callable[["Explorer"], Any]) -> List[Path]:
        self.worklist = [[]]
        paths = []
        while self.worklist:
            prefix = self.worklist.pop()
            self._begin(prefix)
            try:
                v = thunk(self)
                paths.append(Path(list(self.pc), "return", v, self.obls, self.decisions, ghost=self.ghost, insts=self.insts))
            except PyRaise as e:
                paths.append(Path(list(self.pc), "raise", e, self.obls, self.decisions, ghost=self.ghost, insts=self.insts))
            except PathAbort:
                if self.obls:
                    paths.append(Path(list(self.pc), "aborted", None, self.obls, self.decisions, ghost=self.ghost))
            if len(paths) > self.max_paths:
                raise Unsupported("more than %d paths" % self.max_paths)
        return paths


# ---------------------------------------------------------------------------------------------
# interpreter


class LoopSpec:
    """Sidecar invariant for a loop whose trip count is symbolic.

    inv(I, frame, k)            -> SMT Bool: invariant after k iterations (0 <= k <= n)
    length(I, frame, iterable)  -> SMT Int n >= 0: the trip count
    item(I, frame, iterable, k) -> value bound to the loop target in iteration k
    modifies: {local name: sort} the body assigns ('int' | 'real' | 'bool'); they are havocked.
    Emits the obligations <name>.init and <name>.preserve; after the loop the invariant at n is assumed.
    """

    def __init__(self, name, inv, length, item, modifies, hyp_inv=None):
        self.name, self.inv, self.length, self.item, self.modifies = name, inv, length, item, modifies
        # when the invariant is universally quantified (FORALL h. P(h)): `inv` is P at the goal's skolem constant and
        # `hyp_inv` the conjunction of the instances the proof needs (FORALL-elimination); defaults to inv
        self.hyp_inv = hyp_inv or inv

    def frame_condition(self, I, s, f):
        """the locals the loop statement assigns must be the ones the sidecar havocs: a local that is live before the loop and assigned
        in it without being listed would keep its stale value on the exit path (unsound), so that is outside the subset; one that is
        only born in the loop is poisoned on the exit path (any later use is outside the subset as well)"""
        assigned = set()
        for node in [s.target] + list(s.body):
            for x in ast.walk(node):
                if isinstance(x, ast.Name) and isinstance(x.ctx, ast.Store):
                    assigned.add(x.id)
        born = []
        for v in sorted(assigned - set(self.modifies)):
            if v in f.locals:
                raise Unsupported("the loop assigns the local '%s', which the sidecar's frame condition (modifies) does not list" % v)
            born.append(v)
        return born

    def run(self, I, s, f, emit_init=True):
        it = I.eval(s.iter, f)
        n = self.length(I, f, it)
        if emit_init:
            I.ex.oblige(self.name + ".init", self.inv(I, f, z3.IntVal(0)))
        born = self.frame_condition(I, s, f)
        for v, sort in self.modifies.items():
            f.locals[v] = sort(I) if callable(sort) else I.ex.fresh(sort, "havoc_" + v)
        if I.ex.choose(2) == 0:
            k = I.ex.fresh("int", "iter")
            I.ex.assume(z3.And(k >= 0, k < n))
            I.ex.assume(self.hyp_inv(I, f, k))
            I.assign(s.target, self.item(I, f, it, k), f)
            try:
                I.exec_block(s.body, f)
            except _Continue:
                pass
            except _Break:
                raise Unsupported("break inside a loop verified by invariant")
            I.ex.oblige(self.name + ".preserve", self.inv(I, f, k + 1))
            raise PathAbort()
        I.ex.assume(n >= 0)
        I.ex.assume(self.hyp_inv(I, f, n))
        for v in born:
            f.locals[v] = Opaque("local '%s' born in a loop verified by invariant" % v)
        if s.orelse:
            I.exec_block(s.orelse, f)


class Interp:
    def __init__(self, ex: Explorer, stubs: Dict[str, Callable] = None, loops: Dict = None, contracts: Dict = None,
                 inline_depth=6, drop_calls=("warnings.warn",), unroll_limit=64):
        from . import stubs as stubmod

        self.ex = ex
        from . import ctensor

        self.stubs = dict(stubmod.DEFAULT)
        self.stubs.update(ctensor.FUNCS)
        self.stubs.update(stubs or {})
        self.loops = loops or {}  # (qualname, ordinal) -> LoopSpec
        self.contracts = contracts or {}  # qualified function name -> callable(interp, args, kwargs)
        self.inline_depth, self.unroll_limit = inline_depth, unroll_limit
        self.drop_calls = set(drop_calls)
        self.depth = 0
        self.events: List = []  # ghost trace (externals append to it)

    # ---- helpers
    def truth(self, v):
        if isinstance(v, bool):
            return v
        if v is None:
            return False
        if is_z3(v):
            if z3.is_bool(v):
                return v
            if z3.is_int(v) or z3.is_real(v):
                return v != 0
            if z3.is_string(v) or z3.is_seq(v):
                return z3.Length(v) > 0
            raise Unsupported("truthiness of %s" % v.sort())
        if isinstance(v, (int, float, str, list, tuple, dict, set, Fraction)):
            return bool(v)
        if hasattr(v, "__vc_truth__"):
            return v.__vc_truth__(self)
        if isinstance(v, (SObj, Opaque, types.ModuleType, types.FunctionType, type)):
            return True
        raise Unsupported("truthiness of %r" % (v,))

    def branch(self, v) -> bool:
        return self.ex.branch(self.truth(v))

    def raise_(self, etype, msg=None):
        raise PyRaise(etype, msg)

    # ---- function calls
    def get_function(self, modname, qualname):
        fdef = source.find_def(modname, qualname)
        module = importlib.import_module(modname)
        return fdef, module

    def call_def(self, fdef: ast.FunctionDef, module, args, kwargs, cls=None, closure=None):
        if self.depth > self.inline_depth:
            raise Unsupported("inline depth exceeded at %s" % fdef.name)
        frame = Frame(module, closure)
        frame.cls = cls
        frame.fname = fdef.name
        frame.fdef_for_loops = fdef
        self.bind_args(fdef, frame, list(args), dict(kwargs))
        self.depth += 1
        is_gen = any(isinstance(n, (ast.Yield, ast.YieldFrom)) for n in ast.walk(fdef))
        if is_gen:
            frame.yields = []
        try:
            self.exec_block(fdef.body, frame)
            ret = None
        except _Return as r:
            ret = r.v
        finally:
            self.depth -= 1
        if is_gen:
            return frame.yields
        return ret

    def bind_args(self, fdef, frame, args, kwargs):
        a = fdef.args
        params = [p.arg for p in a.posonlyargs + a.args]
        defaults = [None] * (len(params) - len(a.defaults)) + list(a.defaults)
        for i, p in enumerate(params):
            if i < len(args):
                frame.locals[p] = args[i]
            elif p in kwargs:
                frame.locals[p] = kwargs.pop(p)
            elif defaults[i] is not None:
                frame.locals[p] = self.eval(defaults[i], Frame(frame.module))
            else:
                raise PyRaise("TypeError", "missing argument %s" % p)
        if len(args) > len(params):
            if a.vararg is None:
                raise PyRaise("TypeError", "too many positional arguments")
            frame.locals[a.vararg.arg] = tuple(args[len(params):])
        elif a.vararg is not None:
            frame.locals[a.vararg.arg] = ()
        for p, d in zip(a.kwonlyargs, a.kw_defaults):
            if p.arg in kwargs:
                frame.locals[p.arg] = kwargs.pop(p.arg)
            elif d is not None:
                frame.locals[p.arg] = self.eval(d, Frame(frame.module))
            else:
                raise PyRaise("TypeError", "missing kw-only argument %s" % p.arg)
        if kwargs:
            if a.kwarg is None:
                raise PyRaise("TypeError", "unexpected keyword arguments %s" % sorted(kwargs))
            frame.locals[a.kwarg.arg] = kwargs
        elif a.kwarg is not None:
            frame.locals[a.kwarg.arg] = {}

    def call(self, f, args, kwargs, node=None):
        # contracts on repo functions take precedence (modular reasoning)
        if isinstance(f, BoundMethod):
            qn = "%s.%s" % (f.cls.__name__, f.fdef.name)
            if qn in self.contracts:
                return self.contracts[qn](self, [f.obj] + list(args), kwargs)
            return self.call_def(f.fdef, f.module, [f.obj] + list(args), kwargs, cls=f.cls)
        if isinstance(f, Closure):
            return self.call_def(f.fdef, f.module, args, kwargs, cls=f.cls, closure=f.frame)
        if isinstance(f, (Z3Method, PyMethod)):
            from . import stubs as stubmod

            return stubmod.call_method(self, f, args, kwargs)
        if isinstance(f, NativeNoop):
            return None
        if isinstance(f, ArgCheck):
            return f(self, args, kwargs)
        if hasattr(f, "__vc_call__"):
            return f.__vc_call__(self, args, kwargs)
        name = qualified_name(f)
        if name in self.contracts:
            return self.contracts[name](self, list(args), kwargs)
        if name in self.stubs:
            import inspect

            if name.startswith("torch.") and "input" in kwargs:  # torch's name of the first (tensor) argument of its functions
                args, kwargs = [kwargs["input"]] + list(args), {k_: v_ for k_, v_ in kwargs.items() if k_ != "input"}

            try:
                inspect.signature(self.stubs[name]).bind(self, *args, **kwargs)
            except TypeError as e_:  # e.g. keywords where the stub takes positionals: not modelled, rather than an engine crash
                raise Unsupported("the call form of %s is not modelled by its stub (%s)" % (name, e_))
            except ValueError:
                pass
            return self.stubs[name](self, *args, **kwargs)
        if type(f).__name__ == "ScriptFunction" and f.qualified_name.startswith("__torch__.pydrobert.torch"):
            # TorchScript-compiled repo function: the verified text is its Python source (assumption: same semantics)
            modname, _, fn = f.qualified_name[len("__torch__."):].rpartition(".")
            if "%s.%s" % (modname, fn) in self.contracts:
                return self.contracts["%s.%s" % (modname, fn)](self, list(args), kwargs)
            return self.call_def(source.find_def(modname, fn), importlib.import_module(modname), args, kwargs)
        if isinstance(f, (types.FunctionType,)) and f.__module__ and f.__module__.startswith("pydrobert.torch"):
            target = getattr(f, "__wrapped__", f)
            modname, qn = target.__module__, target.__qualname__
            try:
                code = getattr(target, "__code__", None)
                fdef = source.find_def(modname, qn, firstlineno=code.co_firstlineno if code is not None else None)
            except KeyError:
                raise Unsupported("cannot locate source of %s" % name)
            return self.call_def(fdef, importlib.import_module(modname), args, kwargs)
        if isinstance(f, type) and f.__module__.startswith("pydrobert.torch"):
            return self.instantiate(f, args, kwargs)
        if isinstance(f, type) and issubclass(f, BaseException):
            return ExcValue(f.__name__, args)
        if callable(f) and name in PURE_NATIVE and not any(has_symbolic(a) for a in args) and not any(has_symbolic(v) for v in kwargs.values()):
            try:
                return f(*args, **kwargs)
            except Exception as e:
                raise PyRaise(type(e).__name__, str(e))
        raise Unsupported("call to %s (no contract, no stub)" % name)

    def instantiate(self, cls, args, kwargs):
        obj = SObj(cls)
        obj.handmade = False
        init = self.find_method(cls, "__init__")
        if init is not None:
            self.call(BoundMethod(obj, *init), args, kwargs)
        return obj

    def find_method(self, cls, name, after=None):
        """(fdef, module, owner) for the first class in the MRO (after `after`) defining name in repo source."""
        mro = list(cls.__mro__)
        if after is not None:
            mro = mro[mro.index(after) + 1:]
        for k in mro:
            if name in k.__dict__:
                if not k.__module__.startswith("pydrobert.torch"):
                    return None
                try:
                    fdef = source.find_def(k.__module__, k.__qualname__ + "." + name)
                except KeyError:
                    return None
                return fdef, importlib.import_module(k.__module__), k
        return None

    def run_fragment(self, module, stmts, locals_, fname="<fragment>", fdef=None):
        """Execute a statement list taken from inside a real function in a frame supplied by the
        sidecar contract. Returns the frame (its locals are the fragment's final state)."""
        frame = Frame(module)
        frame.fname, frame.fdef_for_loops = fname, fdef
        frame.locals.update(locals_)
        self.exec_block(stmts, frame)
        return frame

    # ---- statements
    def exec_block(self, stmts, frame):
        inv = getattr(self, "_inv_loops", None)
        if inv and stmts is inv[-1][0].body and not inv[-1][2]:
            inv[-1][2] = True
            return self._exec_arbitrary_iteration(stmts, frame, inv[-1][1], inv[-1][0])
        for s in stmts:
            self.exec_stmt(s, frame)

    @staticmethod
    def _read_before_written(loop):
        """locals the loop body may read before it has (certainly) written them - conservative: straight-line statements in order,
        both branches of an `if` (written afterwards = written in both), bodies of nested loops / with / try read with what is
        written before them and contribute nothing certain"""
        readfirst = set()

        def names(node, ctx):
            return {x.id for x in ast.walk(node) if isinstance(x, ast.Name) and isinstance(x.ctx, ctx)}

        def block(stmts, written):
            written = set(written)
            for st in stmts:
                if isinstance(st, ast.If):
                    readfirst.update(names(st.test, ast.Load) - written)
                    w1, w2 = block(st.body, written), block(st.orelse, written)
                    written = w1 & w2
                elif isinstance(st, (ast.For, ast.While, ast.With, ast.Try)):
                    for part in ("iter", "test", "items"):
                        sub = getattr(st, part, None)
                        for x in (sub if isinstance(sub, list) else [sub] if sub is not None else []):
                            readfirst.update(names(x, ast.Load) - written)
                    inner = set(written) | (names(st.target, ast.Store) if isinstance(st, ast.For) else set())
                    for part in ("body", "orelse", "finalbody"):
                        block(getattr(st, part, []) or [], inner)
                    for h in getattr(st, "handlers", []) or []:
                        block(h.body, inner)
                else:
                    loads = names(st, ast.Load)
                    if isinstance(st, ast.AugAssign):
                        loads |= names(st.target, ast.Store)
                    readfirst.update(loads - written)
                    if isinstance(st, (ast.Assign, ast.AnnAssign, ast.AugAssign)):
                        written |= {t.id for t in (st.targets if isinstance(st, ast.Assign) else [st.target]) for t in ([t] if isinstance(t, ast.Name) else [e for e in getattr(t, "elts", []) if isinstance(e, ast.Name)])}
            return written

        block(loop.body, names(loop.target, ast.Store) if isinstance(loop, ast.For) else set())
        return readfirst

    def _exec_arbitrary_iteration(self, stmts, frame, snapshot, loop):
        """the body of a loop verified by invariant, run for the ARBITRARY iteration. A tensor- or SMT-valued local that still holds
        its pre-loop object when the body starts was not replaced by the sidecar's arbitrary state; if the body then assigns it (or
        updates it in place), the loop carries state the sidecar's invariant does not know - a maintainer introduced or renamed a
        variable: the contract does not apply to this text (undecided, exit 2), instead of obligations being judged on a stale value"""
        watched = {}
        carried = self._read_before_written(loop)
        for v, o in snapshot.items():
            if v in carried and v in frame.locals and frame.locals[v] is o and (is_z3(o) or type(o).__name__ in ("ST", "CT", "SymVec")):
                watched[v] = (o, getattr(o, "elem", None), getattr(o, "a", None))

        def check():
            for v, (o, el, arr) in watched.items():
                now = frame.locals.get(v)
                if now is not o or getattr(now, "elem", None) is not el or getattr(now, "a", None) is not arr:
                    raise Unsupported("the loop carries the local '%s' from one iteration to the next, and the sidecar's invariant does not cover it" % v)

        try:
            for s in stmts:
                self.exec_stmt(s, frame)
        except _Continue:
            check()
            raise
        check()

    def exec_stmt(self, s, frame):
        m = getattr(self, "st_" + type(s).__name__, None)
        if m is None:
            raise Unsupported("statement %s at line %d" % (type(s).__name__, s.lineno))
        return m(s, frame)

    def st_Pass(self, s, f):
        pass

    def st_Global(self, s, f):
        pass

    def st_Delete(self, s, f):
        for t in s.targets:
            if isinstance(t, ast.Name):
                f.locals.pop(t.id, None)

    def st_Expr(self, s, f):
        if isinstance(s.value, ast.Constant):
            return  # docstring
        if isinstance(s.value, ast.Call) and ast.unparse(s.value.func) in self.drop_calls:
            return  # documented drop: warnings.warn(...)
        if isinstance(s.value, (ast.Yield,)):
            v = self.eval(s.value.value, f) if s.value.value is not None else None
            f.yields.append(v)
            return
        if isinstance(s.value, ast.YieldFrom):
            self.ex_YieldFrom(s.value, f)
            return
        self.eval(s.value, f)

    def st_Return(self, s, f):
        raise _Return(self.eval(s.value, f) if s.value is not None else None)

    def st_Raise(self, s, f):
        if s.exc is None:
            if getattr(f, "current_exc", None) is not None:
                raise f.current_exc
            raise Unsupported("bare raise")
        v = self.eval_exc(s.exc, f)
        raise PyRaise(v.etype, v.args)

    def eval_exc(self, e, f):
        if isinstance(e, ast.Call):
            fn = self.eval(e.func, f)
            if isinstance(fn, type) and issubclass(fn, BaseException):
                return ExcValue(fn.__name__, ())  # message text is dropped (documented)
        v = self.eval(e, f)
        if isinstance(v, ExcValue):
            return v
        if isinstance(v, type) and issubclass(v, BaseException):
            return ExcValue(v.__name__, ())
        raise Unsupported("raise of %r" % (v,))

    def st_Assert(self, s, f):
        if not self.branch(self.eval(s.test, f)):
            raise PyRaise("AssertionError")

    def st_If(self, s, f):
        if self.branch(self.eval(s.test, f)):
            self.exec_block(s.body, f)
        else:
            self.exec_block(s.orelse, f)

    def st_Assign(self, s, f):
        v = self.eval(s.value, f)
        for t in s.targets:
            self.assign(t, v, f)

    def st_AnnAssign(self, s, f):
        if s.value is not None:
            self.assign(s.target, self.eval(s.value, f), f)

    def st_AugAssign(self, s, f):
        cur = self.eval(_as_load(s.target), f)
        v = self.eval(s.value, f)
        if hasattr(cur, "__vc_iop__"):
            r = cur.__vc_iop__(self, s.op, v)
            if r is not NotImplemented:
                self.assign(s.target, r, f)  # in-place ops rebind (alias tracking is in the tensor layer)
                return
        self.assign(s.target, self.binop(s.op, cur, v), f)

    def assign(self, t, v, f):
        if isinstance(t, ast.Name):
            f.locals[t.id] = v
        elif isinstance(t, (ast.Tuple, ast.List)):
            items = self.unpack(v, len(t.elts))
            for tt, vv in zip(t.elts, items):
                self.assign(tt, vv, f)
        elif isinstance(t, ast.Attribute):
            obj = self.eval(t.value, f)
            if isinstance(obj, SObj):
                obj.fields[t.attr] = v
            elif hasattr(obj, "__vc_setattr__"):
                obj.__vc_setattr__(self, t.attr, v)
            else:
                raise Unsupported("attribute store on %r" % (obj,))
        elif isinstance(t, ast.Subscript):
            obj = self.eval(t.value, f)
            idx = self.eval_index(t.slice, f)
            self.setitem(obj, idx, v)
        else:
            raise Unsupported("assignment target %s" % type(t).__name__)

    def unpack(self, v, n):
        if isinstance(v, (tuple, list)):
            if len(v) != n:
                raise PyRaise("ValueError", "unpack")
            return list(v)
        if hasattr(v, "__vc_unpack__"):
            return v.__vc_unpack__(self, n)
        raise Unsupported("unpack of %r" % (v,))

    def setitem(self, obj, idx, v):
        if isinstance(obj, list) and isinstance(idx, int):
            try:
                obj[idx] = v
            except IndexError:
                raise PyRaise("IndexError")
        elif isinstance(obj, dict):
            obj[self.dict_key(idx)] = v
        elif hasattr(obj, "__vc_setitem__"):
            obj.__vc_setitem__(self, idx, v)
        else:
            raise Unsupported("item store on %r[%r]" % (obj, idx))

    def dict_key(self, k):
        if is_z3(k):
            k = z3.simplify(k)
            if z3.is_int_value(k):
                return k.as_long()
            if z3.is_string_value(k):
                return k.as_string()
            return SymKey(k)
        return k

    @staticmethod
    def counting_while_as_for(s):
        """`while i < HI: BODY; i += 1` (the counter initialised before the loop) is `for i in range(i, HI): BODY` followed by
        `i = max(i, HI)`, provided BODY does not assign i, does not `continue` (which would skip the increment) or `break`, and does
        not assign a name HI reads. Returns (for-node, counter name, HI expression) or None. Purely syntactic, checked here."""
        t = s.test
        if not (isinstance(t, ast.Compare) and len(t.ops) == 1 and not s.orelse and s.body):
            return None
        if isinstance(t.ops[0], ast.Lt) and isinstance(t.left, ast.Name):
            ctr, hi = t.left.id, t.comparators[0]
        elif isinstance(t.ops[0], ast.Gt) and isinstance(t.comparators[0], ast.Name):
            ctr, hi = t.comparators[0].id, t.left
        else:
            return None
        last, body = s.body[-1], s.body[:-1]
        inc = (isinstance(last, ast.AugAssign) and isinstance(last.op, ast.Add) and isinstance(last.target, ast.Name) and last.target.id == ctr
               and isinstance(last.value, ast.Constant) and last.value.value == 1) or \
              (isinstance(last, ast.Assign) and len(last.targets) == 1 and isinstance(last.targets[0], ast.Name) and last.targets[0].id == ctr
               and ast.unparse(last.value) in ("%s + 1" % ctr, "1 + %s" % ctr))
        if not inc or not body:
            return None
        hi_names = {x.id for x in ast.walk(hi) if isinstance(x, ast.Name)}
        for st in body:
            for x in ast.walk(st):
                if isinstance(x, (ast.Continue, ast.Break)):
                    return None
                if isinstance(x, ast.Name) and isinstance(x.ctx, ast.Store) and (x.id == ctr or x.id in hi_names):
                    return None
        rng = ast.Call(func=ast.Name(id="range", ctx=ast.Load()), args=[ast.Name(id=ctr, ctx=ast.Load()), hi], keywords=[])
        node = ast.For(target=ast.Name(id=ctr, ctx=ast.Store()), iter=rng, body=body, orelse=[], type_comment=None)
        ast.copy_location(node, s)
        ast.fix_missing_locations(node)
        return node, ctr, hi

    def st_While(self, s, f):
        key = (f.fname, self.loop_ordinal(f, s))
        if key in self.loops:
            conv = self.counting_while_as_for(s) if getattr(self.loops[key], "statement", ast.For) is ast.For else None
            if conv is not None:  # a counting while loop where the sidecar's invariant is stated over the equivalent for loop
                node, ctr, hi = conv
                i0, hi_v = self.eval(ast.Name(id=ctr, ctx=ast.Load()), f), self.eval(hi, f)
                self.loop_with_invariant(node, f, self.loops[key])
                if is_z3(i0) or is_z3(hi_v):
                    f.locals[ctr] = z3.If(to_z3(i0) < to_z3(hi_v), to_z3(hi_v), to_z3(i0))
                else:
                    f.locals[ctr] = max(i0, hi_v)
                return None
            return self.loop_with_invariant(s, f, self.loops[key])
        n = 0
        while True:
            if not self.branch(self.eval(s.test, f)):
                self.exec_block(s.orelse, f)
                return
            try:
                self.exec_block(s.body, f)
            except _Break:
                return
            except _Continue:
                pass
            n += 1
            if n > self.unroll_limit:
                raise Unsupported("while loop at line %d exceeds the unroll limit and has no invariant" % s.lineno)

    def loop_ordinal(self, f, node):
        fdef = f.fdef_for_loops
        if fdef is None:
            return -1
        loops = source.find_loops(fdef)
        for i, l in enumerate(loops):
            if l is node:
                return i
        return -1

    def st_For(self, s, f):
        key = (f.fname, self.loop_ordinal(f, s))
        if key in self.loops:
            return self.loop_with_invariant(s, f, self.loops[key])
        it = self.eval(s.iter, f)
        items = self.iterate(it)
        broke = False
        for x in items:
            self.assign(s.target, x, f)
            try:
                self.exec_block(s.body, f)
            except _Break:
                broke = True
                break
            except _Continue:
                continue
        if not broke:
            self.exec_block(s.orelse, f)

    def iterate(self, it):
        if isinstance(it, (list, tuple, str)):
            return list(it)
        if isinstance(it, dict):
            return list(it.keys())
        if isinstance(it, range):
            if len(it) > self.unroll_limit:
                raise Unsupported("range of %d exceeds the unroll limit" % len(it))
            return list(it)
        if isinstance(it, SymRange):
            return it.concrete_items(self)
        if hasattr(it, "__vc_iter__"):
            return it.__vc_iter__(self)
        raise Unsupported("iteration over %r (symbolic trip count needs an invariant)" % (it,))

    def loop_with_invariant(self, s, f, spec: LoopSpec):
        want = getattr(spec, "statement", ast.For)
        if not isinstance(s, want):
            # the sidecar's invariant is stated over a `for` loop (trip count, item of iteration k); the source has another loop form
            # here: the contract does not apply to this text (undecided), it is neither a crash nor a violation
            raise Unsupported("loop %s of %s is a %s statement; the sidecar's invariant is stated over a %s loop" % (
                self.loop_ordinal(f, s), f.fname, type(s).__name__.lower(), want.__name__.lower()))
        if not hasattr(self, "_inv_loops"):
            self._inv_loops = []
        self._inv_loops.append([s, dict(f.locals), False])
        try:
            return spec.run(self, s, f)
        finally:
            self._inv_loops.pop()

    def st_Break(self, s, f):
        raise _Break()

    def st_Continue(self, s, f):
        raise _Continue()

    def st_Try(self, s, f):
        try:
            try:
                self.exec_block(s.body, f)
            except PyRaise as e:
                for h in s.handlers:
                    names = self.handler_names(h, f)
                    if names is None or any(exc_isa(e.etype, n) for n in names):
                        if h.name:
                            f.locals[h.name] = ExcValue(e.etype, e.msg)
                        f.current_exc = e
                        try:
                            self.exec_block(h.body, f)
                        finally:
                            f.current_exc = None
                        break
                else:
                    raise
            else:
                self.exec_block(s.orelse, f)
        finally:
            if s.finalbody:
                self.exec_block(s.finalbody, f)

    def handler_names(self, h, f):
        if h.type is None:
            return None
        t = self.eval(h.type, f)
        ts = t if isinstance(t, tuple) else (t,)
        return [x.__name__ for x in ts]

    def st_With(self, s, f):
        for item in s.items:
            cm = self.eval(item.context_expr, f)
            if hasattr(cm, "__vc_enter__"):
                v = cm.__vc_enter__(self)
            elif type(cm).__name__ in ("no_grad", "enable_grad", "set_grad_enabled", "catch_warnings"):
                v = None  # gradient-mode / warnings context managers: no effect on values (documented drop)
            else:
                raise Unsupported("with-statement over %r" % (cm,))
            if item.optional_vars is not None:
                self.assign(item.optional_vars, v, f)
        try:
            self.exec_block(s.body, f)
        finally:
            for item in s.items:
                pass
        for item in s.items:
            cm = self.eval(item.context_expr, f) if False else None

    def st_FunctionDef(self, s, f):
        f.locals[s.name] = Closure(s, f.module, f, cls=f.cls)

    def st_Import(self, s, f):
        for a in s.names:
            f.locals[(a.asname or a.name).split(".")[0]] = importlib.import_module(a.name.split(".")[0]) if not a.asname else importlib.import_module(a.name)

    def st_ImportFrom(self, s, f):
        raise Unsupported("local from-import")

    # ---- expressions
    def eval(self, e, f):
        m = getattr(self, "ex_" + type(e).__name__, None)
        if m is None:
            raise Unsupported("expression %s at line %d" % (type(e).__name__, getattr(e, "lineno", -1)))
        return m(e, f)

    def ex_Constant(self, e, f):
        return e.value

    def ex_Name(self, e, f):
        return f.lookup(e.id)

    def ex_Tuple(self, e, f):
        return tuple(self.eval_star(e.elts, f))

    def ex_List(self, e, f):
        return list(self.eval_star(e.elts, f))

    def ex_Set(self, e, f):
        items = self.eval_star(e.elts, f)
        if any(is_z3(x) for x in items):
            return SymSet([(True, x) for x in items])
        return set(items)

    def eval_star(self, elts, f):
        out = []
        for x in elts:
            if isinstance(x, ast.Starred):
                out.extend(self.iterate(self.eval(x.value, f)))
            else:
                out.append(self.eval(x, f))
        return out

    def ex_Dict(self, e, f):
        d = {}
        for k, v in zip(e.keys, e.values):
            if k is None:
                d.update(self.eval(v, f))
            else:
                d[self.dict_key(self.eval(k, f))] = self.eval(v, f)
        return d

    def ex_JoinedStr(self, e, f):
        parts = []
        for v in e.values:
            if isinstance(v, ast.Constant):
                parts.append(v.value)
            else:
                try:
                    x = self.eval(v.value, f)
                except Unsupported:
                    return Opaque("fstring")  # message text only; its value is dropped (documented)
                if not is_concrete(x):
                    return Opaque("fstring")
                spec = ""
                if v.format_spec is not None:
                    spec = self.ex_JoinedStr(v.format_spec, f)
                    if isinstance(spec, Opaque):
                        return spec
                if v.conversion == 114:
                    x = repr(x)
                elif v.conversion == 115:
                    x = str(x)
                parts.append(format(x, spec))
        return "".join(parts)

    def ex_IfExp(self, e, f):
        if self.branch(self.eval(e.test, f)):
            return self.eval(e.body, f)
        return self.eval(e.orelse, f)

    def ex_BoolOp(self, e, f):
        # Python semantics: value of the deciding operand; forks on truthiness
        v = None
        for i, x in enumerate(e.values):
            v = self.eval(x, f)
            if i == len(e.values) - 1:
                return v
            t = self.branch(v)
            if isinstance(e.op, ast.And) and not t:
                return v if not is_z3(v) else False
            if isinstance(e.op, ast.Or) and t:
                return v if not is_z3(v) else (True if z3.is_bool(v) else v)
        return v

    def ex_UnaryOp(self, e, f):
        v = self.eval(e.operand, f)
        if isinstance(e.op, ast.Not):
            t = self.truth(v)
            return (not t) if isinstance(t, bool) else z3.Not(t)
        if hasattr(v, "__vc_unop__"):
            return v.__vc_unop__(self, e.op)
        if isinstance(e.op, ast.USub):
            return -v
        if isinstance(e.op, ast.UAdd):
            return v
        if isinstance(e.op, ast.Invert) and isinstance(v, int):
            return ~v
        raise Unsupported("unary %s on %r" % (type(e.op).__name__, v))

    def ex_BinOp(self, e, f):
        return self.binop(e.op, self.eval(e.left, f), self.eval(e.right, f))

    def binop(self, op, a, b):
        if hasattr(a, "__vc_binop__"):
            r = a.__vc_binop__(self, op, b, False)
            if r is not NotImplemented:
                return r
        if hasattr(b, "__vc_binop__"):
            r = b.__vc_binop__(self, op, a, True)
            if r is not NotImplemented:
                return r
        if not is_z3(a) and not is_z3(b):
            return self.native_binop(op, a, b)
        if isinstance(op, ast.Pow) and (not is_z3(a)) and a == 10 and is_z3(b):
            # 10 ** x with symbolic x: uninterpreted, strictly positive (assumed contract of float pow)
            r = POW10(to_z3(b) if z3.is_real(b) else z3.ToReal(b))
            self.ex.assume(r > 0)
            return r
        if isinstance(op, ast.Add) and (_is_strlike(a) or _is_strlike(b)):
            return z3.Concat(to_z3(a), to_z3(b))
        if isinstance(op, ast.Mod) and isinstance(a, str):
            return Opaque("str%")
        a, b = coerce_pair(a, b)
        if isinstance(op, ast.Add):
            return a + b
        if isinstance(op, ast.Sub):
            return a - b
        if isinstance(op, ast.Mult):
            return a * b
        if isinstance(op, ast.Div):
            if self.ex.branch(b == 0):
                raise PyRaise("ZeroDivisionError")
            if z3.is_int(a):
                a, b = z3.ToReal(a), z3.ToReal(b)
            return a / b
        if isinstance(op, (ast.FloorDiv, ast.Mod)):
            if self.ex.branch(b == 0):
                raise PyRaise("ZeroDivisionError")
            if z3.is_real(a):
                q = z3.ToReal(z3.ToInt(a / b))  # floor of the real quotient
                return q if isinstance(op, ast.FloorDiv) else a - b * q
            # decide the divisor's sign when possible to keep terms simple
            bs = z3.simplify(b)
            if z3.is_int_value(bs):
                d = bs.as_long()
                if d > 0:
                    return a / bs if isinstance(op, ast.FloorDiv) else a % bs
            if not self.ex.feasible(b < 0):
                return a / b if isinstance(op, ast.FloorDiv) else a % b
            return pydiv(a, b) if isinstance(op, ast.FloorDiv) else pymod(a, b)
        if isinstance(op, ast.Pow):
            bs = z3.simplify(b)
            if z3.is_int_value(bs) and 0 <= bs.as_long() <= 4:
                r = to_z3(1, a)
                for _ in range(bs.as_long()):
                    r = r * a
                return r
            raise Unsupported("symbolic power")
        if isinstance(op, ast.BitAnd) and z3.is_bool(a) and z3.is_bool(b):
            return z3.And(a, b)
        if isinstance(op, ast.BitOr) and z3.is_bool(a) and z3.is_bool(b):
            return z3.Or(a, b)
        if isinstance(op, ast.BitXor) and z3.is_bool(a) and z3.is_bool(b):
            return z3.Xor(a, b)
        raise Unsupported("binary %s on SMT terms" % type(op).__name__)

    def native_binop(self, op, a, b):
        import operator as o

        table = {ast.Add: o.add, ast.Sub: o.sub, ast.Mult: o.mul, ast.Div: o.truediv, ast.FloorDiv: o.floordiv, ast.Mod: o.mod,
                 ast.Pow: o.pow, ast.BitAnd: o.and_, ast.BitOr: o.or_, ast.BitXor: o.xor, ast.LShift: o.lshift, ast.RShift: o.rshift}
        if isinstance(a, (Opaque,)) or isinstance(b, (Opaque,)):
            return Opaque("binop")
        try:
            return table[type(op)](a, b)
        except ZeroDivisionError:
            raise PyRaise("ZeroDivisionError")
        except TypeError as e:
            raise Unsupported("native binop %s on %r, %r" % (type(op).__name__, a, b))

    def ex_Compare(self, e, f):
        left = self.eval(e.left, f)
        result = None
        for op, rexp in zip(e.ops, e.comparators):
            right = self.eval(rexp, f)
            c = self.compare(op, left, right)
            result = c if result is None else self.and_(result, c)
            if result is False:
                return False
            left = right
        return result

    def and_(self, a, b):
        if isinstance(a, bool):
            return b if a else False
        if isinstance(b, bool):
            return a if b else False
        if hasattr(a, "__vc_binop__"):
            return a.__vc_binop__(self, ast.BitAnd(), b, False)
        return z3.And(a, b)

    def compare(self, op, a, b):
        if isinstance(op, (ast.Is, ast.IsNot)):
            if a is None or b is None or isinstance(a, bool) or isinstance(b, bool):
                same = a is b
            elif is_z3(a) or is_z3(b):
                raise Unsupported("identity comparison on SMT terms")
            else:
                same = a is b
            return same if isinstance(op, ast.Is) else not same
        if isinstance(op, (ast.In, ast.NotIn)):
            r = self.contains(b, a)
            if isinstance(op, ast.In):
                return r
            return (not r) if isinstance(r, bool) else z3.Not(r)
        if hasattr(a, "__vc_compare__"):
            r = a.__vc_compare__(self, op, b, False)
            if r is not NotImplemented:
                return r
        if hasattr(b, "__vc_compare__"):
            r = b.__vc_compare__(self, op, a, True)
            if r is not NotImplemented:
                return r
        if (a is None or b is None) and isinstance(op, (ast.Eq, ast.NotEq)):
            if is_z3(a) or is_z3(b):
                return isinstance(op, ast.NotEq)  # an SMT term is never None
            return (a == b) if isinstance(op, ast.Eq) else (a != b)
        if not is_z3(a) and not is_z3(b):
            import operator as o

            table = {ast.Eq: o.eq, ast.NotEq: o.ne, ast.Lt: o.lt, ast.LtE: o.le, ast.Gt: o.gt, ast.GtE: o.ge}
            if isinstance(a, (tuple, list)) and isinstance(b, (tuple, list)) and isinstance(op, (ast.Eq, ast.NotEq)) and not (is_concrete(a) and is_concrete(b)):
                if len(a) != len(b):
                    return isinstance(op, ast.NotEq)
                r = True
                for x, y in zip(a, b):
                    r = self.and_(r, self.compare(ast.Eq(), x, y))
                return r if isinstance(op, ast.Eq) else ((not r) if isinstance(r, bool) else z3.Not(r))
            try:
                return table[type(op)](a, b)
            except TypeError:
                raise PyRaise("TypeError")
        if _is_strlike(a) or _is_strlike(b):
            a, b = to_z3(a), to_z3(b)
            if isinstance(op, ast.Eq):
                return a == b
            if isinstance(op, ast.NotEq):
                return a != b
            if isinstance(op, ast.Lt):
                return a < b
            if isinstance(op, ast.LtE):
                return a <= b
            if isinstance(op, ast.Gt):
                return b < a
            if isinstance(op, ast.GtE):
                return b <= a
        a, b = coerce_pair(a, b)
        if isinstance(op, ast.Eq):
            return a == b
        if isinstance(op, ast.NotEq):
            return a != b
        if z3.is_bool(a):
            a, b = z3.If(a, 1, 0), z3.If(b, 1, 0)
        if isinstance(op, ast.Lt):
            return a < b
        if isinstance(op, ast.LtE):
            return a <= b
        if isinstance(op, ast.Gt):
            return a > b
        if isinstance(op, ast.GtE):
            return a >= b
        raise Unsupported("comparison %s" % type(op).__name__)

    def contains(self, container, x):
        if hasattr(container, "__vc_contains__"):
            return container.__vc_contains__(self, x)
        if isinstance(container, dict):
            container = list(container.keys())
        if isinstance(container, (list, tuple, set, frozenset)):
            if is_concrete(x) and all(is_concrete(c) for c in container):
                return x in container
            r = False
            for c in container:
                eq = self.compare(ast.Eq(), x, c)
                if eq is True:
                    return True
                if eq is False:
                    continue
                r = eq if r is False else z3.Or(r, eq)
            return r
        if isinstance(container, str) and isinstance(x, str):
            return x in container
        if _is_strlike(container):
            return z3.Contains(to_z3(container), to_z3(x))
        raise Unsupported("membership in %r" % (container,))

    def ex_Attribute(self, e, f):
        obj = self.eval(e.value, f)
        return self.getattr(obj, e.attr)

    def getattr(self, obj, name):
        if hasattr(obj, "__vc_getattr__"):
            return obj.__vc_getattr__(self, name)
        if isinstance(obj, SObj):
            if name in obj.fields:
                return obj.fields[name]
            if name == "__class__":
                return obj.cls
            if obj.cls is not None:
                m = self.find_method(obj.cls, name)
                if m is not None:
                    fdef, module, owner = m
                    decos = {d.id for d in fdef.decorator_list if isinstance(d, ast.Name)}
                    if "property" in decos:
                        return self.call_def(fdef, module, [obj], {}, cls=owner)
                    if "staticmethod" in decos:  # no implicit first argument
                        return Closure(fdef, module, None, cls=owner)
                    if "classmethod" in decos:  # the class is the implicit first argument
                        return BoundMethod(obj.cls, fdef, module, owner)
                    if decos - {"overload"}:
                        raise Unsupported("method %s with decorator(s) %s" % (name, sorted(decos)))
                    return BoundMethod(obj, fdef, module, owner)
                if hasattr(obj.cls, name) and is_concrete(getattr(obj.cls, name)):
                    return getattr(obj.cls, name)  # class-level constant
            if getattr(obj, "handmade", False):
                # the sidecar listed the fields it expects the verified function to touch; another one is a gap of the sidecar's
                # object, not an AttributeError of the real code: undecided, never a violation
                raise Unsupported("attribute %s of the sidecar-made object %s" % (name, obj.name))
            raise PyRaise("AttributeError", name)
        if isinstance(obj, SuperProxy):
            m = self.find_method(obj.obj.cls, name, after=obj.cls)
            if m is None:
                return NativeNoop("super().%s" % name)
            return BoundMethod(obj.obj, *m)
        if hasattr(obj, "__vc_getattr__"):
            return obj.__vc_getattr__(self, name)
        if is_z3(obj):
            return Z3Method(obj, name)
        if isinstance(obj, (str, list, dict, tuple, int, float, set)):
            return PyMethod(obj, name)
        if isinstance(obj, types.ModuleType) and obj.__name__ == "pydrobert.torch.argcheck":
            return ArgCheck(name, getattr(obj, name))
        if isinstance(obj, (types.ModuleType, type)) or callable(obj):
            try:
                return getattr(obj, name)
            except AttributeError:
                raise PyRaise("AttributeError", name)
        if isinstance(obj, ExcValue) and name == "args":
            return obj.args
        if not has_symbolic(obj):
            try:
                return getattr(obj, name)
            except AttributeError:
                raise PyRaise("AttributeError", name)
        raise Unsupported("attribute %s of %r" % (name, obj))

    def eval_index(self, s, f):
        if isinstance(s, ast.Slice):
            return slice(*(self.eval(x, f) if x is not None else None for x in (s.lower, s.upper, s.step)))
        if isinstance(s, ast.Tuple):
            return tuple(self.eval_index(x, f) for x in s.elts)
        return self.eval(s, f)

    def ex_Subscript(self, e, f):
        obj = self.eval(e.value, f)
        idx = self.eval_index(e.slice, f)
        return self.getitem(obj, idx)

    def getitem(self, obj, idx):
        if hasattr(obj, "__vc_getitem__"):
            return obj.__vc_getitem__(self, idx)
        if isinstance(obj, (list, tuple, str)) and (isinstance(idx, int) or (isinstance(idx, slice) and all(isinstance(x, (int, type(None))) for x in (idx.start, idx.stop, idx.step)))):
            try:
                return obj[idx]
            except IndexError:
                raise PyRaise("IndexError")
        if isinstance(obj, (list, tuple)) and is_z3(idx):
            n = len(obj)
            if self.ex.branch(z3.Or(idx >= n, idx < -n)):
                raise PyRaise("IndexError")
            for i in range(n):
                if self.ex.branch(z3.Or(idx == i, idx == i - n)):
                    return obj[i]
            raise PathAbort()
        if isinstance(obj, dict):
            k = self.dict_key(idx)
            if isinstance(k, SymKey):
                for kk in obj:
                    if self.ex.branch(self.compare(ast.Eq(), idx, kk)):
                        return obj[kk]
                raise PyRaise("KeyError")
            if k in obj:
                return obj[k]
            raise PyRaise("KeyError")
        if _is_strlike(obj):
            return str_index(self, obj, idx)
        raise Unsupported("subscript %r[%r]" % (obj, idx))

    def ex_Call(self, e, f):
        # super() needs the lexical class
        if isinstance(e.func, ast.Name) and e.func.id == "super" and not e.args:
            return SuperProxy(f.lookup_self(), f.cls)
        name = ast.unparse(e.func)
        if name in self.drop_calls:
            return None
        fn = self.eval(e.func, f)
        args = self.eval_star(e.args, f)
        kwargs = {}
        for k in e.keywords:
            if k.arg is None:
                kwargs.update(self.eval(k.value, f))
            else:
                kwargs[k.arg] = self.eval(k.value, f)
        return self.call(fn, args, kwargs, e)

    def ex_Lambda(self, e, f):
        fd = ast.FunctionDef(name="<lambda>", args=e.args, body=[ast.Return(value=e.body)], decorator_list=[], lineno=e.lineno)
        return Closure(fd, f.module, f, cls=f.cls)

    def ex_ListComp(self, e, f):
        return self._comp(e, f, lambda fr: self.eval(e.elt, fr))

    def ex_GeneratorExp(self, e, f):
        return self._comp(e, f, lambda fr: self.eval(e.elt, fr))

    def ex_SetComp(self, e, f):
        return self._comp(e, f, lambda fr: self.eval(e.elt, fr))

    def ex_DictComp(self, e, f):
        items = self._comp(e, f, lambda fr: (self.dict_key(self.eval(e.key, fr)), self.eval(e.value, fr)))
        return dict(items)

    def _comp(self, e, f, leaf):
        out = []
        fr = Frame(f.module, f)
        fr.cls, fr.fname = f.cls, f.fname

        def rec(gi):
            if gi == len(e.generators):
                out.append(leaf(fr))
                return
            g = e.generators[gi]
            for x in self.iterate(self.eval(g.iter, fr)):
                self.assign(g.target, x, fr)
                if all(self.branch(self.eval(c, fr)) for c in g.ifs):
                    rec(gi + 1)

        rec(0)
        return out

    def ex_Starred(self, e, f):
        raise Unsupported("starred expression outside a call/display")

    def ex_Yield(self, e, f):
        f.yields.append(self.eval(e.value, f) if e.value is not None else None)
        return None

    def ex_YieldFrom(self, e, f):
        f.yields.extend(self.iterate(self.eval(e.value, f)))
        return None

    def ex_NamedExpr(self, e, f):
        v = self.eval(e.value, f)
        self.assign(e.target, v, f)
        return v


class Frame:
    def __init__(self, module, parent=None):
        self.module, self.parent = module, parent
        self.locals: Dict[str, Any] = {}
        self.cls = None
        self.fname = "?"
        self.yields = None
        self.fdef_for_loops = None

    def lookup(self, name):
        fr = self
        while fr is not None:
            if name in fr.locals:
                return fr.locals[name]
            fr = fr.parent
        if hasattr(self.module, name):
            return getattr(self.module, name)
        if hasattr(builtins, name):
            return getattr(builtins, name)
        raise PyRaise("NameError", name)

    def lookup_self(self):
        fr = self
        while fr is not None:
            if "self" in fr.locals:
                return fr.locals["self"]
            fr = fr.parent
        raise Unsupported("super() outside a method")


class ExcValue:
    def __init__(self, etype, args=()):
        self.etype, self.args = etype, args


class SymSet:
    """finite set of SMT terms with conditional membership: [(cond, elem)] (duplicates allowed)"""

    def __init__(self, items):
        self.items = list(items)

    @staticmethod
    def _c(c):
        return z3.BoolVal(c) if isinstance(c, bool) else c

    def has(self, x):
        def eq(a, b):  # None equals only None (an SMT term is never None)
            if a is None or b is None:
                return z3.BoolVal(a is None and b is None)
            return to_z3(a) == to_z3(b)
        alts = [z3.And(SymSet._c(c), eq(a, x)) for c, a in self.items]
        return z3.simplify(z3.Or(alts)) if alts else z3.BoolVal(False)

    def __vc_binop__(self, I, op, other, reflected):
        if isinstance(other, (set, frozenset)):
            other = SymSet([(True, x) for x in other])
        if not isinstance(other, SymSet):
            return NotImplemented
        a, b = (other, self) if reflected else (self, other)
        if isinstance(op, ast.BitAnd):
            return SymSet([(z3.And(SymSet._c(c), b.has(x)), x) for c, x in a.items])
        if isinstance(op, ast.BitOr):
            return SymSet(a.items + b.items)
        if isinstance(op, ast.Sub):
            return SymSet([(z3.And(SymSet._c(c), z3.Not(b.has(x))), x) for c, x in a.items])
        return NotImplemented

    def __vc_iop__(self, I, op, other):
        return self.__vc_binop__(I, op, other, False)

    def __vc_truth__(self, I):
        return z3.Or([SymSet._c(c) for c, _ in self.items]) if self.items else False

    def __vc_contains__(self, I, x):
        return self.has(x)

    def __vc_iter__(self, I):
        return [x for c, x in self.items if I.ex.branch(SymSet._c(c))]


class SymKey:
    def __init__(self, t):
        self.t = t

    def __hash__(self):
        return hash(str(self.t))

    def __eq__(self, o):
        return isinstance(o, SymKey) and str(o.t) == str(self.t)


class SymRange:
    def __init__(self, lo, hi, step=1):
        self.lo, self.hi, self.step = lo, hi, step

    def concrete_items(self, I):
        lo, hi, st = (simp(x) for x in (self.lo, self.hi, self.step))
        vals = []
        for x in (lo, hi, st):
            if is_z3(x):
                if not z3.is_int_value(x):
                    raise Unsupported("for-loop over a symbolic range needs an invariant")
                x = x.as_long()
            vals.append(x)
        return list(range(*vals))


class ArgCheck:
    """pydrobert.torch.argcheck.is_* : assumed contract = identity on values of the declared type;
    comparative checks raise ValueError when the comparison fails. Concrete arguments run natively."""

    CMP = {"is_lte": "<=", "is_lt": "<", "is_gte": ">=", "is_gt": ">", "is_equal": "=="}
    UNARY = {"is_pos": lambda v: v > 0, "is_nonneg": lambda v: v >= 0, "is_neg": lambda v: v < 0, "is_nonpos": lambda v: v <= 0,
             "is_nat": lambda v: v > 0, "is_posi": lambda v: v > 0, "is_posf": lambda v: v > 0, "is_nonnegi": lambda v: v >= 0,
             "is_nonnegf": lambda v: v >= 0, "is_open01": lambda v: z3.And(v > 0, v < 1), "is_closed01": lambda v: z3.And(v >= 0, v <= 1),
             "is_open01f": lambda v: z3.And(v > 0, v < 1), "is_closed01f": lambda v: z3.And(v >= 0, v <= 1)}

    def __init__(self, name, real):
        self.name, self.real = name, real

    def __call__(self, I, args, kwargs):
        if all(is_concrete(a) for a in args) and all(is_concrete(v) for v in kwargs.values()):
            try:
                return self.real(*args, **kwargs)
            except Exception as e:
                raise PyRaise(type(e).__name__, str(e))
        v = args[0]
        base = self.name[:-1] if self.name[-1] in "ift" and self.name[:-1] in self.CMP else self.name
        if base in self.CMP:
            c = I.compare({"<=": ast.LtE(), "<": ast.Lt(), ">=": ast.GtE(), ">": ast.Gt(), "==": ast.Eq()}[self.CMP[base]], v, args[1])
            if not I.branch(c):
                raise PyRaise("ValueError")
            return v
        if self.name in self.UNARY:
            if not I.branch(self.UNARY[self.name](to_z3(v))):
                raise PyRaise("ValueError")
            return v
        if self.name in ("is_int", "is_float", "is_bool", "is_str", "is_numlike", "is_tensor"):
            if self.name == "is_float" and is_z3(v) and z3.is_int(v):
                return z3.ToReal(v)
            return v
        if self.name == "is_in":
            if not I.branch(I.contains(args[1], v)):
                raise PyRaise("ValueError")
            return v
        raise Unsupported("argcheck.%s on symbolic arguments" % self.name)


class NativeNoop:
    def __init__(self, tag):
        self.tag = tag


class Z3Method:
    def __init__(self, obj, name):
        self.obj, self.name = obj, name


class PyMethod:
    def __init__(self, obj, name):
        self.obj, self.name = obj, name


def _as_load(t):
    import copy

    t2 = copy.deepcopy(t)
    for n in ast.walk(t2):
        if hasattr(n, "ctx"):
            n.ctx = ast.Load()
    return t2


def _is_strlike(v):
    return isinstance(v, str) or (is_z3(v) and (z3.is_string(v)))


def is_concrete(v):
    if isinstance(v, (bool, int, float, str, bytes, type(None), Fraction)):
        return True
    if isinstance(v, (tuple, list, set, frozenset)):
        return all(is_concrete(x) for x in v)
    if isinstance(v, dict):
        return all(is_concrete(k) and is_concrete(x) for k, x in v.items())
    return False


def has_symbolic(v, depth=0):
    if is_z3(v) or isinstance(v, (SObj, Opaque, BoundMethod, Closure, SuperProxy, SymKey, SymRange)) or any(a.startswith("__vc_") for a in dir(type(v)) if a.startswith("__vc")):
        return True
    if depth > 4:
        return False
    if isinstance(v, (tuple, list, set, frozenset)):
        return any(has_symbolic(x, depth + 1) for x in v)
    if isinstance(v, dict):
        return any(has_symbolic(k, depth + 1) or has_symbolic(x, depth + 1) for k, x in v.items())
    return False


def qualified_name(f):
    if isinstance(f, (Z3Method, PyMethod)):
        return "<method>.%s" % f.name
    if isinstance(f, NativeNoop):
        return "<noop>"
    mod = getattr(f, "__module__", None)
    qn = getattr(f, "__qualname__", getattr(f, "__name__", None))
    if isinstance(f, types.BuiltinFunctionType) and getattr(f, "__self__", None) is not None and not isinstance(f.__self__, types.ModuleType):
        if isinstance(f.__self__, type):  # a classmethod of a builtin type (dict.fromkeys, int.from_bytes ...)
            return "builtins.%s.%s" % (f.__self__.__name__, f.__name__)
        return "%s.%s" % (type(f.__self__).__name__, f.__name__)
    if mod is None:
        return str(qn)
    return ("%s.%s" % (mod, qn)).replace("torch._VariableFunctionsClass.", "torch.")


def str_index(I: Interp, s, idx):
    """Python indexing/slicing of a (possibly symbolic) string with (possibly symbolic) bounds."""
    s = to_z3(s)
    n = z3.Length(s)

    def norm(i, default):
        if i is None:
            return default
        i = to_z3(i)
        return z3.If(i < 0, z3.If(i + n < 0, z3.IntVal(0), i + n), z3.If(i > n, n, i))

    if isinstance(idx, slice):
        if idx.step not in (None, 1):
            raise Unsupported("string slice with a step")
        lo, hi = norm(idx.start, z3.IntVal(0)), norm(idx.stop, n)
        return z3.SubString(s, lo, z3.If(hi - lo < 0, z3.IntVal(0), hi - lo))
    i = to_z3(idx)
    if I.ex.branch(z3.Or(i >= n, i < -n)):
        raise PyRaise("IndexError")
    return z3.SubString(s, z3.If(i < 0, i + n, i), 1)


PURE_NATIVE = {
    "builtins.len", "builtins.min", "builtins.max", "builtins.abs", "builtins.int", "builtins.float", "builtins.str", "builtins.bool",
    "builtins.sorted", "builtins.sum", "builtins.range", "builtins.tuple", "builtins.list", "builtins.dict", "builtins.set",
    "builtins.enumerate", "builtins.zip", "builtins.round", "builtins.repr", "builtins.isinstance", "builtins.divmod",
    "math.floor", "math.ceil", "math.log", "math.exp", "math.sqrt", "builtins.any", "builtins.all", "builtins.reversed",
    "os.path.join", "os.path.basename", "os.path.dirname", "typing.get_args", "builtins.frozenset", "builtins.hasattr", "builtins.getattr",
    "builtins.pow", "builtins.ord", "builtins.chr", "builtins.format", "os.path.splitext", "numpy.iinfo", "numpy.finfo",
    "torch.finfo", "torch.iinfo", "torch.autograd.grad_mode.no_grad", "torch.autograd.grad_mode.enable_grad", "warnings.catch_warnings",
}
