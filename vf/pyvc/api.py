"""Sidecar-contract API of engine A and the task runner.

A `VC` puts one real function (or fragment) under contract for one configuration of its
non-symbolic flags: `thunk(I)` builds the symbolic arguments and invokes the function through
the interpreter; `pre` are the preconditions; each `post` maps a finished path to the formula
that must hold on it (exceptional paths included - "raises iff" is a postcondition). Loop
invariants, callee contracts and ghost lemmas are handed to the interpreter and produce further
obligations on the way.
"""
from __future__ import annotations

import multiprocessing as mp
import os
import sys
import time
import traceback
from fractions import Fraction
from typing import Callable, Dict, List, Optional

import z3

from .. import core
from . import interp as ip
from . import solve, source


class VC:
    def __init__(self, clause, name, module, qualname, thunk, pre=(), posts=(), inputs=None, replay=None, loops=None, contracts=None,
                 stubs=None, twins=(), axioms=(), timeout_ms=None, assumptions=(), fragment=None, lemmas=(), max_paths=4000, notes="", witness_hints=()):
        self.clause, self.name, self.module, self.qualname = clause, name, module, qualname
        self.thunk, self.pre, self.posts = thunk, list(pre), list(posts)
        self.inputs, self.replay = inputs or {}, replay
        self.loops, self.contracts, self.stubs = loops or {}, contracts or {}, stubs or {}
        self.twins, self.axioms, self.timeout_ms = list(twins), list(axioms), timeout_ms
        self.assumptions = list(assumptions)
        self.fragment = fragment
        self.lemmas = list(lemmas)  # [(name, [hyps], goal)] extra standalone obligations (ghost lemmas)
        self.max_paths = max_paths
        self.notes = notes
        # optional concrete values (formulas over the VC's own symbols, e.g. B == 1, V == 2) the consistency guard may add to find a
        # model of a path's hypotheses and instances when nonlinear terms leave the plain query undecided
        self.witness_hints = list(witness_hints)


_VCS: Dict[str, VC] = {}


def _jsonable(v):
    if isinstance(v, Fraction):
        return float(v) if v.denominator != 1 else int(v)
    return v


_SEM = None  # global CPU-slot semaphore shared by every process of one run (set in run_vcs before forking)


class _Slot:
    def __enter__(self):
        if _SEM is not None:
            _SEM.acquire()

    def __exit__(self, *a):
        if _SEM is not None:
            _SEM.release()


def _discharge(tasks, solve_task, nchild):
    """Discharge independent obligations. With nchild > 1 the process forks nchild children (os.fork: the SMT terms are
    inherited, nothing is serialised); children pull task indices from a shared counter, hold one global CPU slot per
    query, and write their records to a scratch file each. A child that dies leaves its tasks unrecorded -> engine error."""
    import json
    import shutil
    import tempfile

    nchild = min(nchild, len(tasks))
    if nchild <= 1:
        out = []
        for t in tasks:
            with _Slot():
                out.append(solve_task(*t))
        return out
    ctr = mp.get_context("fork").Value("i", 0)
    d = tempfile.mkdtemp(prefix="pyvc_")
    pids = []
    try:
        for c in range(nchild):
            pid = os.fork()
            if pid == 0:
                code = 0
                try:
                    with open(os.path.join(d, "%d.jsonl" % c), "w") as fh:
                        while True:
                            with ctr.get_lock():
                                i = ctr.value
                                ctr.value += 1
                            if i >= len(tasks):
                                break
                            with _Slot():
                                rec = solve_task(*tasks[i])
                            fh.write(json.dumps([i, rec]) + "\n")
                            fh.flush()
                except BaseException:
                    traceback.print_exc()
                    code = 1
                os._exit(code)
            pids.append(pid)
        bad = 0
        for pid in pids:
            _, st = os.waitpid(pid, 0)
            bad += st != 0
        recs = {}
        for c in range(nchild):
            fp = os.path.join(d, "%d.jsonl" % c)
            if os.path.exists(fp):
                for line in open(fp):
                    i, rec = json.loads(line)
                    recs[i] = rec
        if bad or len(recs) != len(tasks):
            raise RuntimeError("obligation workers failed: %d bad exits, %d/%d records" % (bad, len(recs), len(tasks)))
        return [recs[i] for i in range(len(tasks))]
    finally:
        shutil.rmtree(d, ignore_errors=True)


def _run_vc(args):
    key, timeout_ms, crosscheck, nchild = args
    vc = _VCS[key]
    t0 = time.time()
    out = {"key": key, "clause": vc.clause, "name": vc.name, "obligations": [], "paths": 0, "error": None, "unsupported": None,
           "sha": None, "guards": []}
    try:
        try:
            node = source.find_def(vc.module, vc.qualname)
            out["sha"] = source.seg_hash(vc.module, node)
            frag = None
            if vc.fragment is not None:
                import ast as _ast
                import hashlib as _hl

                frag = vc.fragment(node)
                if not frag:
                    out["unsupported"] = "fragment not found in %s" % vc.qualname
                    return out
                out["sha"] = _hl.sha256("\n".join(_ast.unparse(x) for x in frag).encode()).hexdigest()[:16]
        except (KeyError, IndexError, AssertionError) as e:
            out["unsupported"] = "function/fragment not found: %s" % e
            return out
        ex = ip.Explorer(axioms=list(vc.pre) + list(vc.axioms), max_paths=vc.max_paths)

        def thunk(ex_):
            I = ip.Interp(ex_, stubs=vc.stubs, loops=vc.loops, contracts=vc.contracts)
            I.fragment, I.fdef = frag, node
            return vc.thunk(I)

        try:
            with _Slot():
                paths = ex.explore(thunk)
        except ip.Unsupported as e:
            out["unsupported"] = str(e)
            return out
        out["paths"] = len(paths)
        to = vc.timeout_ms or timeout_ms
        hyps = list(vc.pre) + list(vc.axioms)

        tasks = []

        def decide(name, fmls, goal, kind="post", insts=None):  # deferred: the obligations of one VC are discharged in parallel below
            tasks.append((name, list(fmls), goal, kind, insts))

        def solve_task(name, fmls, goal, kind, insts=None):
            rec = _solve_task(name, fmls, goal, kind, insts, to)
            if rec["status"] == "unknown" and kind != "guard-sat" and any(w in str(rec.get("note") or "") for w in ("timeout", "canceled", "interrupted")):
                # budgets are wall-clock; when the machine is oversubscribed (other checks, test-suites) a query that needs a fixed amount
                # of CPU gets a fraction of it. One retry with three times the budget then, so that verdicts do not flip under load;
                # on an idle machine nothing is retried (a broken tree is answered as fast as before).
                try:
                    load, ncpu = os.getloadavg()[0], (os.cpu_count() or 1)
                except OSError:
                    load, ncpu = 0.0, 1
                if load > 0.9 * ncpu:
                    rec2 = _solve_task(name, fmls, goal, kind, insts, 3 * to)
                    rec2["ms"] = round(rec2["ms"] + rec["ms"], 1)
                    rec2["note"] = ((rec2.get("note") or "") + " [retried with 3x budget: load %.1f on %d cpus]" % (load, ncpu)).strip()
                    return rec2
            return rec

        def _solve_task(name, fmls, goal, kind, insts, to):
            r = None
            if kind == "guard-sat":  # consistency of a path's quantifier-free hypotheses and explicit instances (goal is None)
                r = solve.check_unsat(list(fmls), timeout_ms=5000, cvc5_fallback=False, want_model=False)
                if r.status not in ("sat", "unsat") and vc.witness_hints:
                    r2 = solve.check_unsat(list(fmls) + list(vc.witness_hints), timeout_ms=10000, cvc5_fallback=False, want_model=False)
                    if r2.status == "sat":
                        r = solve.Result("sat", r2.backend, r.ms + r2.ms, note="with the VC's witness hints")
                return {"name": name, "status": r.status, "backend": r.backend, "ms": round(r.ms, 1), "kind": kind, "note": r.note}
            if insts:
                # quantifier-free attempt: quantified hypotheses dropped (weakening), the sidecar's explicit instances added
                qf = [h for h in fmls if not ip.has_quantifier(h)]
                if len(qf) < len(fmls):
                    if os.environ.get("VERIF_DUMP") and os.environ["VERIF_DUMP"] in name:  # debugging aid: the quantifier-free query as SMT-LIB
                        s_ = z3.Solver()
                        s_.add(qf + list(insts) + [z3.Not(goal)])
                        with open("/tmp/dump_%d.smt2" % (abs(hash(name)) % 100000), "w") as fh:
                            fh.write("; %s\n" % name + s_.to_smt2())
                    r0 = solve.check_unsat(qf + list(insts) + [z3.Not(goal)], timeout_ms=to, cvc5_fallback=False, want_model=False)
                    if r0.status == "unsat":
                        r = solve.Result("unsat", "z3[explicit instances]", r0.ms)
                    if r is None:
                        # the instances did not suffice: one attempt with the quantified hypotheses, short budget (an obligation
                        # that needs them and is not decided quickly is reported undecided, never a violation without a model)
                        r = solve.check_unsat(list(fmls) + [z3.Not(goal)], timeout_ms=min(to, 10000), cvc5_fallback=False, crosscheck=crosscheck)
            if r is None and kind == "lemma-raw":  # a lemma about the solver front end itself: no product abstraction
                r = solve._check_unsat(list(fmls) + [z3.Not(goal)], timeout_ms=to, crosscheck=crosscheck)
            if r is None:
                r = solve.check_unsat(list(fmls) + [z3.Not(goal)], timeout_ms=to, crosscheck=crosscheck)
            if r.status == "sat" and "/structure." in name:
                # an applicability condition of the sidecar (which sum / scatter / loop the contract is stated over): when it does not
                # hold, the contract does not apply to this source - undecided (exit 2), not a violation of the property
                r = solve.Result("unknown", r.backend, r.ms, note="the sidecar's structural expectation does not hold for this source: contract not applicable")
            rec = {"name": name, "status": r.status, "backend": r.backend, "ms": round(r.ms, 1), "kind": kind, "note": r.note}
            if r.status == "sat" and r.model is not None and any(z3.is_string(v) for v in vc.inputs.values() if ip.is_z3(v)):
                # counterexample over strings: prefer one made of file-name-safe characters, so that it can be replayed natively
                safe = z3.Star(z3.Union(z3.Range("0", "9"), z3.Range("a", "z"), z3.Range("A", "Z"), z3.Re("-"), z3.Re("_"), z3.Re(".")))
                extra = [z3.InRe(v, safe) for v in vc.inputs.values() if ip.is_z3(v) and z3.is_string(v)]
                r2 = solve.check_unsat(list(fmls) + [z3.Not(goal)] + extra, timeout_ms=min(to, 15000))
                if r2.status == "sat" and r2.model is not None:
                    r = solve.Result("sat", r.backend, r.ms + r2.ms, r2.model, note="model restricted to file-name-safe characters")
                    rec["ms"] = round(r.ms, 1)
            if r.status == "sat" and r.model is not None:
                rec["model"] = {k: _jsonable(solve.model_value(r.model, v)) for k, v in vc.inputs.items()}
                rec["solver_output"] = str(r.model)[:2000]
            return rec

        # vacuity guard 1: preconditions satisfiable
        g = solve.check_unsat(hyps, timeout_ms=min(to, 10000), cvc5_fallback=False, want_model=False)
        out["guards"].append({"name": "pre-satisfiable", "ok": g.status != "unsat", "status": g.status})
        if not paths:
            out["guards"].append({"name": "at-least-one-path", "ok": False})
        # obligations raised along the paths (loop invariants, callee preconditions, in-bounds indices)
        dedup = set()
        for i, p in enumerate(paths):
            for oi, ob in enumerate(p.obls):
                # structural identity through z3's hash-consing (printing large terms costs far more than solving them)
                key = (ob.name, tuple(h.get_id() if ip.is_z3(h) else repr(h) for h in ob.hyps[len(hyps):]), ob.goal.get_id() if ip.is_z3(ob.goal) else repr(ob.goal))
                if key in dedup:  # the same obligation reached along paths that forked later
                    continue
                dedup.add(key)
                decide("%s/%s#path%d.%d" % (vc.name, ob.name, i, oi), list(ob.hyps), ob.goal, kind="path", insts=ob.insts)
        real_paths = [p for p in paths if p.outcome != "aborted"]
        for pname, fn in vc.posts:
            # one obligation per (postcondition, path): small queries discharge far faster than the merged formula
            n_emitted = 0
            for pi, p in enumerate(real_paths):
                g_ = fn(p)
                if g_ is None or g_ is True:
                    continue
                if g_ is False:
                    g_ = z3.BoolVal(False)
                if isinstance(g_, (list, tuple)):  # a post may split into several independent goals
                    for gi, gg in enumerate(g_):
                        n_emitted += 1
                        label = str(gi)
                        if isinstance(gg, tuple):  # (label, goal)
                            label, gg = gg
                        if gg is True or gg is False:
                            gg = z3.BoolVal(gg)
                        decide("%s/%s#path%d.%s" % (vc.name, pname, pi, label), hyps + list(p.pc), gg, insts=p.insts or None)
                    continue
                n_emitted += 1
                decide("%s/%s#path%d" % (vc.name, pname, pi), hyps + list(p.pc), g_, insts=p.insts or None)
            if n_emitted == 0:
                decide("%s/%s" % (vc.name, pname), hyps, z3.BoolVal(bool(real_paths)))
        for lem in vc.lemmas:
            lname, lh, lg = lem[:3]
            decide("%s/lemma:%s" % (vc.name, lname), list(lh), lg, kind="lemma-raw" if len(lem) > 3 and lem[3] == "raw" else "lemma")
        # vacuity guard 3: the explicit instances a path's obligations were proved from are not contradictory among themselves (the
        # quantifier-free attempt uses nothing else: were they unsatisfiable, every goal would follow). One query per path, on the
        # largest instance set of the path; discharged with the obligations.
        for i, p in enumerate(paths):
            last = [ob for ob in p.obls if ob.insts]
            if last:
                ob = last[-1]
                tasks.append(("instances-consistent#path%d" % i, [h for h in ob.hyps if not ip.has_quantifier(h)] + list(ob.insts), None, "guard-sat", None))
        recs = _discharge(tasks, solve_task, nchild)
        out["obligations"] = [r_ for r_ in recs if r_.get("kind") != "guard-sat"]
        # a single path with contradictory instances is an infeasible path the explorer could not prune (quantified path conditions);
        # the guard fails when EVERY path of one kind (returning / raising / loop-step paths) is contradictory - then nothing was proved
        gs = [r_ for r_ in recs if r_.get("kind") == "guard-sat"]
        kind_of = {("instances-consistent#path%d" % i): p.outcome for i, p in enumerate(paths)}
        dead_kinds = {k for k in {kind_of[r_["name"]] for r_ in gs} if all(r_["status"] == "unsat" for r_ in gs if kind_of[r_["name"]] == k)}
        for r_ in gs:
            bad = r_["status"] == "unsat" and kind_of[r_["name"]] in dead_kinds
            out["guards"].append({"name": r_["name"], "ok": not bad, "status": r_["status"] + (" (infeasible path)" if r_["status"] == "unsat" and not bad else "")})
        # vacuity guard 2: must-fail twins
        for tname, fn in vc.twins:
            goals = []
            for p in real_paths:
                g_ = fn(p)
                if g_ is None or g_ is True:
                    continue
                if g_ is False:
                    g_ = z3.BoolVal(False)
                goals.append(z3.Implies(z3.And(p.pc) if p.pc else z3.BoolVal(True), g_))
            with _Slot():
                r = solve.check_unsat(hyps + [z3.Not(z3.And(goals) if goals else z3.BoolVal(True))], timeout_ms=min(to, 10000), cvc5_fallback=False, want_model=False)
            # a must-fail twin passes its guard when it is NOT discharged: refuted (sat) or, under quantified hypotheses where no
            # model can be built, left open (unknown). Contradictory hypotheses would discharge it (unsat) like everything else.
            out["guards"].append({"name": "twin:%s" % tname, "ok": r.status != "unsat", "status": r.status})
    except ip.Unsupported as e:  # raised while a postcondition evaluated a (lazy) tensor element: outside the modelled subset
        out["unsupported"] = str(e)
    except Exception:
        out["error"] = traceback.format_exc(limit=-10)
    out["wall_ms"] = round((time.time() - t0) * 1000)
    return out


def run_vcs(ctx: core.Ctx, vcs: List[VC], text_by_clause: Optional[Dict[str, str]] = None, bounded: Optional[str] = None):
    """Explore + discharge every VC (16-process pool), then fold results into one proved clause per
    clause name. Counter-models are replayed natively on the real function.

    bounded: when given (a description of the shape bound), the VCs are the concrete-shape symbolic rung
    ("S"): complete over all contents for the enumerated shapes only. The clause is then recorded as
    kind 'bounded' (never counted as proved); its discharged obligations are reported as evaluations."""
    only = getattr(ctx, "only", None)
    if only:
        vcs = [v for v in vcs if any(v.clause.startswith(o) for o in only)]
    if not vcs:
        return
    if bounded is not None:  # the concrete-shape rung rests on the modelled torch primitives: test them against real torch on this run
        from . import crosscheck

        crosscheck.guard(ctx)
    timeout_ms = 30000 if ctx.quick else 120000
    crosscheck = not ctx.quick
    _VCS.clear()
    for v in vcs:
        key = "%s::%s" % (v.clause, v.name)
        assert key not in _VCS, "duplicate VC %s" % key
        _VCS[key] = v
    global _SEM
    nchild = 1 if ctx.jobs <= 1 else min(ctx.jobs, max(2, 2 * ctx.jobs // len(_VCS)))
    jobs = [(k, timeout_ms, crosscheck, nchild) for k in _VCS]
    _SEM = mp.get_context("fork").BoundedSemaphore(ctx.jobs) if ctx.jobs > 1 else None
    try:
        if ctx.jobs > 1 and len(jobs) > 1:
            with mp.get_context("fork").Pool(min(ctx.jobs, len(jobs))) as pool:
                results = pool.map(_run_vc, jobs, chunksize=1)
        else:
            results = [_run_vc(j) for j in jobs]
    finally:
        _SEM = None
    by_clause: Dict[str, List[dict]] = {}
    for r in results:
        by_clause.setdefault(r["clause"], []).append(r)
    for clause, rs in by_clause.items():
        c = core.Clause(name=clause, kind="proved", text=(text_by_clause or {}).get(clause, ""))
        backends = set()
        problems = []
        for r in rs:
            vc = _VCS[r["key"]]
            fq = "%s.%s" % (vc.module.split(".")[-1], vc.qualname)
            if r["sha"]:
                ctx.functions[fq] = r["sha"]
                if fq not in c.functions:
                    c.functions.append(fq)
            for a in vc.assumptions:
                ctx.assume(a)
            if r["error"]:
                if os.environ.get("VERIF_SHOW"):
                    print("ENGINE-ERROR %s\n%s" % (r["name"], r["error"]), file=sys.stderr)
                c.status = "error"
                problems.append("%s: engine error %s" % (r["name"], r["error"][-400:]))
                ctx.errors.append(r["name"])
                continue
            if r["unsupported"]:
                if c.status == "ok":
                    c.status = "undecided"
                problems.append("%s: outside the verified subset: %s" % (r["name"], r["unsupported"]))
                ctx.undecided.append(r["name"])
                continue
            for g in r["guards"]:
                if os.environ.get("VERIF_SHOW"):
                    print("GUARD %s %s: %s" % (r["name"][:40], g["name"], g.get("status")), file=sys.stderr)
                if not g["ok"]:
                    c.status = "error"
                    problems.append("%s: vacuity guard %s failed (%s)" % (r["name"], g["name"], g.get("status")))
                    ctx.errors.append("%s/%s" % (r["name"], g["name"]))
            if not r["obligations"]:
                c.status = "error"
                problems.append("%s: zero obligations generated" % r["name"])
                ctx.errors.append(r["name"])
            for ob in r["obligations"]:
                c.obligations += 1
                c.solver_ms += ob["ms"]
                backends.add(ob["backend"])
                if len(c.samples) < 3:
                    c.samples.append({"obligation": ob["name"], "status": ob["status"], "backend": ob["backend"], "ms": ob["ms"], "paths": r["paths"]})
                if os.environ.get("VERIF_SHOW") and ob.get("ms", 0) > 3000:
                    print("SLOW %s: %s %s ms (%s)" % (ob["name"], ob["status"], ob.get("ms"), ob.get("backend")), file=sys.stderr)
                if ob["status"] == "unsat":
                    c.discharged += 1
                elif ob["status"] == "sat":
                    msg, case = None, ob.get("model")
                    if vc.replay is not None and case is not None:
                        try:
                            msg = vc.replay(case)
                        except Exception as e:
                            msg = None
                            problems.append("replay crashed: %s: %s" % (type(e).__name__, e))
                    payload = {"obligation": ob["name"], "function": fq, "model": case, "solver_output": ob.get("solver_output", ob.get("note", "")),
                               "backend": ob["backend"]}
                    rec = ctx.match_known(clause, case, ob["name"])
                    if rec is not None:
                        ctx.known_finding(rec["id"], rec["what"])
                        if c.status == "ok":
                            c.status = "known"
                        continue
                    c.status = "violation"
                    n_viol = getattr(c, "_nviol", 0) + 1
                    c._nviol = n_viol
                    if n_viol > 3:  # report the first three refuted obligations of a clause in full, count the rest
                        ctx.violations.append({"clause": clause, "replay": None, "no_input": not msg, "msg": ob["name"]})
                        continue
                    if msg:
                        payload["message"] = msg
                        ctx.violation(clause, payload, msg="obligation %s refuted; counterexample replays on the real code: %s" % (ob["name"], msg))
                    else:
                        ctx.violation(clause, payload, no_input=True, msg="obligation %s refuted (%s); model=%s" % (ob["name"], ob["backend"], case))
                else:
                    if c.status == "ok":
                        c.status = "undecided"
                    problems.append("%s: %s (%s)" % (ob["name"], ob["status"], ob.get("note", "")))
                    if os.environ.get("VERIF_SHOW"):  # debugging aid: list every open obligation
                        print("OPEN %s: %s (%s) %s ms" % (ob["name"], ob["status"], ob.get("note", ""), ob.get("ms")), file=sys.stderr)
                    ctx.undecided.append(ob["name"])
        c.backend = "+".join(sorted(backends))
        c.detail = "; ".join(problems)[:1500]
        if bounded:
            c.kind, c.bound = "bounded", bounded
            c.evaluations, c.nontrivial, c.exhaustive = c.obligations, c.discharged, True
            c.detail = ("symbolic over all contents per shape: %d obligations, %d discharged, %s, %.0f ms solver; " % (c.obligations, c.discharged, c.backend, c.solver_ms)) + c.detail
            c.obligations = c.discharged = 0
        ctx.add_clause(c)
        if c.status == "undecided":
            ctx.log("UNDECIDED property=%s clause=%s %s" % (ctx.prop, clause, c.detail[:500]))
    ctx.trust("python semantics as encoded by vf/pyvc/interp.py (unbounded ints, floor //,%, left-to-right evaluation, short-circuit booleans)",
              "stdlib contracts in vf/pyvc/stubs.py", "z3 5.1 / cvc5 1.0.3 soundness")


# -- small helpers for writing posts ----------------------------------------------------------------

def returns(p):
    return p.outcome == "return"


def raises(p, etype=None):
    return p.outcome == "raise" and (etype is None or ip.exc_isa(p.value.etype, etype))


def bool_term(b):
    return z3.BoolVal(b) if isinstance(b, bool) else b


def post_raises_iff(cond_fn, etype=None, and_then=None):
    """post: the path raises (etype) exactly when cond holds; on normal paths `and_then(p)` too."""

    def post(p):
        cond = bool_term(cond_fn(p))
        if raises(p):
            if etype is not None and not raises(p, etype):
                return z3.BoolVal(False)
            return cond
        g = z3.Not(cond)
        if and_then is not None:
            extra = and_then(p)
            if extra is not None:
                g = z3.And(g, bool_term(extra))
        return g

    return post
