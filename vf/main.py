"""./check entry point: python -m vf.main Cxx [--tier quick|thorough] [--replay FILE]"""
import argparse
import importlib
import json
import os
import sys
import traceback

from . import core


def main(argv=None):
    ap = argparse.ArgumentParser()
    ap.add_argument("prop")
    ap.add_argument("--tier", default=os.environ.get("VERIF_TIER", "quick"), choices=["quick", "thorough"])
    ap.add_argument("--replay", default=None)
    ap.add_argument("--only", default=None, help="comma-separated clause-name prefixes (development aid; evidence is still written)")
    a = ap.parse_args(argv)
    seed = int(os.environ.get("VERIF_SEED", "0") or 0)
    sys.path.insert(0, core.ROOT)
    sys.path.insert(0, os.path.join(core.REPO, "src"))
    try:
        mod = importlib.import_module("contracts.%s" % a.prop)
    except Exception:
        traceback.print_exc()
        print("ERROR cannot load contracts for %s" % a.prop)
        return core.EXIT_ERROR
    ctx = core.Ctx(a.prop, a.tier, seed)
    ctx.only = a.only.split(",") if a.only else None
    if a.replay:
        payload = json.load(open(a.replay))
        clause = payload["clause"]
        if "case" in payload and clause in getattr(mod, "CHECKERS", {}):
            try:
                msg = mod.CHECKERS[clause](payload["case"])
            except Exception as e:
                msg = "raised %s: %s" % (type(e).__name__, e)
            if msg:
                print("VIOLATION property=%s replay=%s" % (a.prop, a.replay))
                print("   clause=%s %s" % (clause, msg))
                return core.EXIT_VIOLATION
            print("replay: contract holds on this case now")
            return core.EXIT_OK
        # obligation replays: re-run the clause that owns the obligation
        ctx.only = [clause]
    try:
        mod.run(ctx)
    except Exception:
        traceback.print_exc()
        ctx.errors.append("run() crashed")
        ctx.log("ERROR property=%s checker crashed (not a property verdict)" % a.prop)
    return ctx.finish()


if __name__ == "__main__":
    sys.exit(main())
